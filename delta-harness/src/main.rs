//! Second-generation front end only (no first-generation compiler, no LLVM): the same
//! sequence as `compile_to_ir_using_delta`, for running under Miri and AddressSanitizer.
//!
//! usage: delta-harness <file>...      one summary line per input on stdout

use penne::delta::lexer;
use penne::delta::parser;

fn front(bytes: &[u8], name: &str) -> String
{
	let tokens = lexer::lex(bytes, name);
	let n_tokens = tokens.base_tokens().len();
	if let Some(errors) = tokens.errors()
	{
		return format!("stage=lex tokens={} errors={:?}", n_tokens, errors.codes());
	}
	let source = std::str::from_utf8(bytes).ok();
	let mut xml_lines = 0usize;
	if let Some(source) = source
	{
		xml_lines += tokens.as_xml(source).map(|l| l.len()).filter(|&n| n > 0).count();
	}
	let tree = parser::parse(&tokens);
	if let Some(errors) = tree.errors(&tokens)
	{
		return format!(
			"stage=parse tokens={} nodes={} errors={:?}",
			n_tokens,
			tree.num_parse_nodes(),
			errors.codes()
		);
	}
	if let Some(source) = source
	{
		xml_lines += tree.as_xml(&tokens, source).count();
	}
	let header = tree.build_header();
	if let Some(source) = source
	{
		xml_lines += header.as_xml(&tokens, source).count();
	}
	format!(
		"stage=done tokens={} nodes={} decls={} header_nodes={} header_decls={} xml_lines={}",
		n_tokens,
		tree.num_parse_nodes(),
		tree.num_declarations(),
		header.num_parse_nodes(),
		header.num_declarations(),
		xml_lines
	)
}

fn main()
{
	for path in std::env::args().skip(1)
	{
		let bytes = std::fs::read(&path).expect("input file");
		let line = front(&bytes, &path);
		println!("{} {}", path, line);
	}
}
