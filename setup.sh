#!/bin/sh
# Builds the framework from files on disk only (offline).
cd "$(dirname "$0")" || exit 2
export CARGO_NET_OFFLINE=true
python3 - <<'PY'
import sys
sys.path.insert(0, ".")
from pv import common
try:
    common.ensure_worker("chk")
    common.ensure_worker("rel")
    common.ensure_penne_bin()
    from pv import c15_sanitizers
    c15_sanitizers.build_miri()
    c15_sanitizers.build_asan()
    print("setup: workers, penne binary, Miri and ASan harness built")
except common.HarnessError as e:
    print("setup failed:", e)
    sys.exit(2)
PY
