"""C03 - every successful compilation yields valid LLVM IR.

Monitor: LLVM 14's own assembler (llvm-as) and verifier (opt -passes=verify) run as
separate processes on the *printed text* of every module and of the linked program, plus a
reader of define lines (every source function defined; main/pub externally visible)."""
import json
import re

from . import common, gen_mutate, gen_prog, c01
from .common import HELD, VIOLATED, INCONCLUSIVE

PROP = "C03"

DEFINE_RE = re.compile(r'^define\s+(.*?)@("[^"]+"|[A-Za-z0-9_.$-]+)\(', re.M)


def defines(ir):
    out = {}
    for m in DEFINE_RE.finditer(ir):
        name = m.group(2).strip('"')
        out[name] = m.group(1).split()
    return out


def judge(files, resp, wasm):
    """Returns list of (signature, detail) problems for an accepted compilation."""
    problems = []
    irs = [("module %d" % i, ir) for i, ir in enumerate(resp.get("module_irs") or [])]
    irs.append(("linked", resp["ir"]))
    for what, ir in irs:
        msg = common.llvm_judges(ir)
        if msg is not None:
            kind = "linked" if what == "linked" else "module"
            problems.append(("%s IR rejected by %s" % (kind, common.abstract_llvm_message(msg)[:160]),
                             {"which": what, "message": msg}))
    linked = defines(resp["ir"])
    for mod in resp.get("resolved") or []:
        i = mod["module"]
        mdefs = defines(resp["module_irs"][i]) if i < len(resp.get("module_irs") or []) else {}
        for d in mod["decls"]:
            if d["kind"] != "fn":
                continue
            name = d["name"]
            # visibility is read off the source text, not off the compiler's own flags: `main` is the entry point whatever its
            # signature, and `pub` is what the module says
            src_text = files[i][1] if i < len(files) else ""
            visible = name == "main" or re.search(r"\bpub\s+(?:extern\s+)?fn\s+%s\b" % re.escape(name), src_text) is not None \
                or "pub" in d["flags"] or "main" in d["flags"]
            if name not in mdefs:
                problems.append(("function defined in source has no define in its module IR",
                                 {"function": name, "module": i}))
            elif visible and any(w in ("private", "internal") for w in mdefs[name]):
                problems.append(("main/pub function is not externally visible in module IR",
                                 {"function": name, "linkage": mdefs[name]}))
            cands = [n for n in linked if n == name or re.fullmatch(re.escape(name) + r"\.\d+", n)]
            if visible:
                if name not in linked:
                    problems.append(("main/pub function has no define in linked IR", {"function": name}))
                elif any(w in ("private", "internal") for w in linked[name]):
                    problems.append(("main/pub function is not externally visible in linked IR",
                                     {"function": name, "linkage": linked[name]}))
            elif not cands and re.search(r"^declare\s.*@%s\(" % re.escape(name), resp["ir"], re.M):
                # an unreferenced private function may be dropped by the linker (it is unobservable);
                # but a function the source defines must never be left as a bare declaration
                problems.append(("function defined in source is only declared in linked IR", {"function": name}))
    return problems


def run_case(case):
    files = case["files"]
    wasm = case.get("wasm", False)
    kind, r = common.call({"op": "alpha_compile", "files": [{"path": p, "src": s} for p, s in files],
                           "wasm": wasm, "ir": True, "module_ir": True}, build="chk", timeout=60)
    cov = {"kind:" + case["kind"]: 1}
    if kind != "resp" or r["status"] != "ok":
        # crashes and rejections are the business of C02 / C01
        cov["not_accepted"] = 1
        return {"verdict": None, "cov": cov}
    cov["accepted"] = 1
    cov["modules_judged"] = len(r.get("module_irs") or []) + 1
    cov["functions_checked"] = sum(1 for m in r["resolved"] for d in m["decls"] if d["kind"] == "fn")
    if wasm:
        cov["wasm"] = 1
    problems = judge(files, r, wasm)
    if not problems:
        out = {"verdict": HELD, "cov": cov,
               "nt": "%s|%d|%s|%d" % (case["kind"].split(":")[0], len(files), wasm, min(cov["functions_checked"], 6))}
        if case.get("want_sample"):
            out["sample"] = {"kind": case["kind"], "files": [p for p, _ in files], "wasm": wasm,
                             "defines": sorted(defines(r["ir"]))[:12]}
        return out
    # an LLVM message says little about the cause: key the finding on where the input came from as well (a corpus file by
    # name, any other workload by its class), so that the same message on another input is still reported
    kind = case["kind"].split(":")[0]
    base = kind[:-5] if kind.endswith("_wasm") else kind
    origin = files[0][0] if base in ("corpus", "modules") else base
    problems = [("%s [on %s]" % (s, origin) if "rejected by" in s else s, d) for s, d in problems]
    sig, detail = problems[0]
    return {"verdict": VIOLATED, "sig": sig, "detail": detail, "cov": cov,
            "replay": {"files": files, "wasm": wasm, "kind": case["kind"]},
            "more_violations": [{"sig": s, "detail": d, "replay": {"files": files, "wasm": wasm}} for s, d in problems[1:3]]}


def cases(tier, seed):
    rng = common.rng_for(seed, PROP)
    quick = tier == "quick"
    corpus = gen_mutate.corpus()
    # generated valid programs
    n = 300 if quick else 6000
    for i in range(n):
        prog, _cov, prng = c01.make_program(seed + 1000, i)
        style = gen_prog.Style(rng=prng, paren="min")
        src = gen_prog.to_source(prog, style)
        yield {"kind": "generated", "files": [("gen.pn", src)], "want_sample": i == 0}
        if i % 3 == 0:
            yield {"kind": "generated_wasm", "files": [("gen.pn", src)], "wasm": True}
    # programs that cannot be executed: no main, endless loop, FFI declarations
    specials = [
        "pub fn twice(x: i32) -> i32\n{\n\treturn: x + x\n}\n",
        "fn spin()\n{\n\t{\n\t\tloop;\n\t}\n}\nfn main() -> i32\n{\n\tspin();\n\treturn: 0\n}\n",
        "extern fn puts(s: []u8) -> i32;\npub extern fn entry(x: &i32)\n{\n\tx = 4;\n}\n",
        "pub const K: i32 = 5;\npub struct S\n{\n\ta: i32,\n}\nfn helper(s: S) -> i32\n{\n\treturn: s.a + K\n}\n",
        "fn div(a: i32, b: i32) -> i32\n{\n\treturn: a / b\n}\nfn main() -> i32\n{\n\tvar z: i32 = 0;\n\treturn: div(1, z)\n}\n",
    ]
    # exported C-ABI functions with a body, alone and imported by another module; structure literals written out of
    # declaration order / as constants
    lib = "pub extern fn square(x: i32) -> i32\n{\n\treturn: x * x\n}\n\npub extern fn cube(x: i32) -> i32\n{\n\treturn: x * square(x)\n}\n"
    app = "import \"lib.pn\";\n\nfn main() -> i32\n{\n\treturn: square(4) + cube(2)\n}\n"
    cfg = ("struct Config\n{\n\tsize: i64,\n\tlevel: i8,\n\tfast: bool,\n}\n\nconst DEFAULT: Config = Config { level: 7, fast: true, size: 20 };\n\n"
           "fn main() -> i32\n{\n\tvar c = Config { fast: false, size: 1000, level: 3 };\n\tvar d = Config { level: 9 };\n\treturn: c.level as i32 + DEFAULT.level as i32\n}\n")
    for fs in ([("lib.pn", lib)], [("app.pn", app), ("lib.pn", lib)], [("lib.pn", lib), ("app.pn", app)], [("cfg.pn", cfg)],
               [("m.pn", "extern fn main() -> i32\n{\n\treturn: 3\n}\n")]):
        yield {"kind": "special_export", "files": fs}
        yield {"kind": "special_export_wasm", "files": fs, "wasm": True}
    # constants and functions have separate namespaces: a constant may be named like `main` or like a public function
    specials.append("const main: i32 = 5;\n\nconst twice: [2]i32 = [2, 3];\n\nconst helper: i64 = 9;\n\npub fn twice(x: i32) -> i32\n{\n"
                    "\treturn: x * twice[0]\n}\n\nfn helper() -> i64\n{\n\treturn: helper\n}\n\nfn main() -> i32\n{\n"
                    "\treturn: main + twice(1) + helper() as i32\n}\n")
    # functions named like the C symbols the builtins are lowered to: what the source defines must be defined under its own name
    from . import c02
    for cell, src in c02.intrinsic_name_sources():
        yield {"kind": "intrinsic_names", "files": [("names.pn", src)]}
        if "form 7" in cell or "form 5" in cell:
            yield {"kind": "intrinsic_names_lib", "files": [("names.pn", src.replace("fn main()", "fn other()")),
                                                            ("app.pn", "import \"names.pn\";\n\nfn main() -> i32\n{\n\treturn: 0\n}\n")]}
    for s in specials:
        yield {"kind": "special", "files": [("special.pn", s)]}
        yield {"kind": "special_wasm", "files": [("special.pn", s)], "wasm": True}
    # corpus and accepted mutants
    for j, (p, t) in enumerate(corpus):
        yield {"kind": "corpus", "files": [(p, t)], "want_sample": j == 1}
        if not quick or j % 4 == 0:
            yield {"kind": "corpus_wasm", "files": [(p, t)], "wasm": True}
    for i in range(400 if quick else 30000):
        p, t = rng.choice(corpus)
        op, t2 = gen_mutate.mutate(rng, t, op=rng.choice(["tok_type", "num_edit", "paren_wrap", "tok_dup", "tok_delete",
                                                           "tok_swap", "crlf", "dup_decl", "rename_use", "amp"]))
        yield {"kind": "mutant:" + op, "files": [(p, t2)]}
    # multi-module sets: import closures in every rotation, hand-built sets
    sets = gen_mutate.corpus_import_sets()
    for fs in sets:
        for k in range(len(fs)):
            rot = fs[k:] + fs[:k]
            yield {"kind": "modules", "files": rot}
            yield {"kind": "modules_wasm", "files": rot, "wasm": True}
    for fs in gen_mutate.module_sets(rng):
        yield {"kind": "modules_hand", "files": fs}


def replay_file(path):
    with open(path) as f:
        data = json.load(f)
    rp = data["replay"]
    common.ensure_worker("chk")
    r = run_case({"files": [tuple(x) for x in rp["files"]], "wasm": rp.get("wasm", False), "kind": "replay"})
    if r.get("verdict") == VIOLATED:
        print(r["sig"], r["detail"])
        print("VIOLATION property=%s replay=%s" % (PROP, path))
        return 1
    print("replay: property holds on this input now (%s)" % r.get("verdict"))
    return 0


def main(tier, seed, replay=None):
    if replay:
        return replay_file(replay)
    common.ensure_worker("chk")
    run = common.Run(PROP, tier, seed)
    results = common.run_sharded(run_case, cases(tier, seed))
    for r in results:
        if r.get("verdict") is None and "harness_error" not in r:
            run.merge_counters(r.get("cov"))
            continue
        run.feed(r)
    run.assumptions = [
        "validity is judged by LLVM 14's llvm-as and opt -passes=verify (the LLVM version the compiler links against)",
        "only accepted compilations are judged here; crashes and rejections belong to C02/C01",
        "wasm: only IR validity, no execution",
    ]
    return run.finish(
        rule="a case = one accepted compilation (single file, wasm variant, or multi-module set in some file order); every module "
             "text and the linked text go through llvm-as and the verifier, and define lines are compared with the resolved "
             "declarations; distinct_nontrivial = distinct (workload kind, #files, wasm, #functions capped at 6)",
        coverage_extra={"modules_judged": int(run.counters.get("modules_judged", 0)),
                        "functions_checked": int(run.counters.get("functions_checked", 0)),
                        "inputs_not_accepted": int(run.counters.get("not_accepted", 0))},
        min_evaluations=100)
