"""C11 - top-level declarations are order-independent and must be well-formed.

 1. metamorphic: generated programs (valid, and with one injected fault) under random permutations of their
    top-level declarations: same verdict, same code set, same output;
 2. random dependency graphs over constants and structures: acyclic => accepted with predicted values,
    any cycle => rejected with E413/E415/E416;
 3. duplicate names of every kind in every order and distance;
 4. type x position table for the documented well-formedness rules (E350-E359, E380, E433);
 5. every value type of nesting depth <= 3 over 7 wrappers and 3 bases in 7 declaration positions against the compositional
    well-formedness rule;
 6. constant arrays whose length is a named constant (literal, derived, size-of) in every declaration order."""
import itertools
import json
import re

from . import common, gen_mutate, gen_prog, interp, c01, c10
from .common import HELD, VIOLATED, INCONCLUSIVE

PROP = "C11"


def compile_src(src, want_ir=True, before=None):
    files = ([{"path": "units.pn", "src": before}] if before else []) + [{"path": "c11.pn", "src": src}]
    return common.call({"op": "alpha_compile", "files": files, "ir": want_ir, "module_ir": False}, build="chk", timeout=60)


def outcome(src, run=True, before=None):
    """('crash', sig) | ('rejected', sorted codes) | ('ok', (stdout, status))"""
    k, r = compile_src(src, want_ir=run, before=before)
    if k == "crash":
        return "crash", r.signature()
    if k == "panic":
        return "crash", common.panic_signature(r)
    if r["status"] != "ok":
        return "rejected", tuple(sorted(set(e["code"] for e in r.get("errors", []))))
    if not run:
        return "ok", None
    res = common.run_lli(r["ir"], timeout=30)
    return "ok", (res["stdout"], res["code"], res["status"])


# ---- 1. permutations

def split_decls(src):
    """Top-level declaration blocks of a printed G1 program (separated by blank lines)."""
    return [b for b in src.split("\n\n") if b.strip()]


def run_perm(case):
    _, seed, i = case
    prog, _cov, rng = c01.make_program(seed + 11, i, {"max_funcs": 5})
    src = gen_prog.to_source(prog)
    blocks = split_decls(src)
    if len(blocks) < 2:
        return {"verdict": None, "cov": {"single_declaration": 1}}
    fault = None
    if i % 3 == 1:
        j = rng.randrange(len(blocks))
        op, mutated = gen_mutate.mutate(rng, blocks[j], op=rng.choice(["tok_type", "rename_use", "num_edit", "amp"]))
        if "\n\n" not in mutated:
            blocks[j] = mutated
            fault = op
    base = "\n\n".join(blocks) + "\n"
    # every fifth program is compiled as the second module, after an unrelated module with constants of its own
    units = c10.UNITS if i % 5 == 4 else None
    ref = outcome(base, run=True, before=units)
    runnable = True
    if ref[0] == "ok":
        try:
            interp.run_program(prog)
        except interp.Undefined:
            runnable = False    # UB programs: verdict only
    cov = {"perm_programs": 1, "perm_base_" + ref[0]: 1}
    if ref[0] == "crash":
        return {"verdict": None, "cov": {"perm_base_crash": 1}}      # C02's business
    if ref[0] == "rejected" and set(ref[1]) & {100, 101, 110, 140, 141, 160, 161, 162, 163, 300, 301, 302}:
        # a lexical/syntactic fault blurs the declaration boundaries: text blocks are no longer declarations
        return {"verdict": None, "cov": {"perm_base_syntax_error": 1}}
    perms = []
    idx = list(range(len(blocks)))
    perms.append(list(reversed(idx)))
    for _ in range(5):
        p = idx[:]
        rng.shuffle(p)
        perms.append(p)
    for p in perms:
        text = "\n\n".join(blocks[q] for q in p) + "\n"
        got = outcome(text, run=(ref[0] == "ok" and runnable and fault is None), before=units)
        cov["permutations"] = cov.get("permutations", 0) + 1
        if got[0] == "crash":
            # a crash is neither verdict; it is keyed on its own site so that it cannot hide a change of verdict
            return {"verdict": VIOLATED, "sig": "a permutation of the declarations crashes the compiler: %s" % got[1],
                    "detail": {"reference": repr(ref)[:300], "order": p}, "replay": {"base": base, "permuted": text}, "cov": cov}
        if ref[0] == "rejected" and got[0] == "rejected" and got[1] != ref[1]:
            # the property asks for "accepted or rejected alike": which follow-up errors accompany the rejection may depend on
            # which of two clashing declarations is met first; recorded, not judged
            cov["rejected_with_other_codes_under_permutation"] = cov.get("rejected_with_other_codes_under_permutation", 0) + 1
            continue
        same = got[0] == ref[0] and (got[1] == ref[1] if (ref[0] != "ok" or (runnable and fault is None)) else True)
        if not same:
            what = "verdict" if got[0] != ref[0] else ("codes" if ref[0] == "rejected" else "behaviour")
            return {"verdict": VIOLATED, "sig": "a permutation of the declarations changes the %s%s" % (what, " (faulted program)" if fault else ""),
                    "detail": {"reference": repr(ref)[:300], "permuted": repr(got)[:300], "order": p},
                    "replay": {"base": base, "permuted": text}, "cov": cov}
    return {"verdict": HELD, "cov": cov, "nt": "perm:%s:%s:%d" % (ref[0], fault, len(blocks)),
            "sample": {"declarations": len(blocks), "fault": fault, "base_outcome": ref[0], "permutations": len(perms)} if i % 60 == 0 else None}


# ---- 2. dependency graphs

def graph_source(rng, i):
    """A random dependency graph over 1-4 constants and 1-4 structures, as source text. Every second graph has one cycle
    of length 1-5 closed; declarations come in random order. Returns (src, cycle or None, consts, structs, edges, ptr_edges, decls)."""
    nc, ns = rng.randrange(1, 5), rng.randrange(1, 5)
    consts = ["K%d" % k for k in range(nc)]
    structs = ["S%d" % k for k in range(ns)]
    nodes = consts + structs
    edges = {n: [] for n in nodes}      # n depends on m
    want_cycle = i % 2 == 0
    order = nodes[:]
    rng.shuffle(order)
    rank = {n: k for k, n in enumerate(order)}
    for n in nodes:
        for m in nodes:
            if n == m:
                continue
            p = 0.3
            if rank[m] > rank[n] and rng.random() < p:
                edges[n].append(m)       # forward edges only: acyclic
    if want_cycle:
        # one cycle of length 1-5 (a self loop when 1): a forward path through nodes in rank order, closed by a back edge
        length = min(len(nodes), rng.choice([1, 2, 2, 3, 3, 4, 4, 5]))
        path = sorted(rng.sample(nodes, length), key=lambda n: rank[n])
        for a, b in zip(path, path[1:]):
            if b not in edges[a]:
                edges[a].append(b)
        edges[path[-1]].append(path[0])
    # find cycle for the record
    cyc = find_cycle(edges)
    ptr_edges = []
    for s in structs:
        if rng.random() < 0.5:
            # pointers never create a dependency. (A pointer member to a structure that is itself on a cycle
            # panics on the unchanged tree - known finding - so only every 10th cyclic case points into the cycle.)
            targets = [x for x in structs if not cyc or x not in cyc or i % 10 == 0]
            if targets:
                ptr_edges.append((s, rng.choice(targets)))
    # emit source
    decls = []
    for c in consts:
        terms = ["%d" % rng.randrange(1, 9)]
        for m in edges[c]:
            terms.append(m if m in consts else "|:%s|" % m)
        decls.append("const %s: usize = %s;" % (c, " + ".join(terms)))
    for s in structs:
        members = ["\tbase: i32,"]
        q = 0
        for m in edges[s]:
            q += 1
            if m in consts:
                members.append("\tarr%d: [%s]i32," % (q, m))
            elif rng.random() < 0.5:
                members.append("\tm%d: %s," % (q, m))
            else:
                members.append("\tms%d: [2]%s," % (q, m))
        for (a, b) in ptr_edges:
            if a == s:
                q += 1
                members.append("\tp%d: &%s," % (q, b))
        decls.append("struct %s\n{\n%s\n}" % (s, "\n".join(members)))
    main = "fn main() -> i32\n{\n" + "".join("\tprint!(%s, \"\\n\");\n" % c for c in consts) + \
           "".join("\tprint!(|:%s|, \"\\n\");\n" % s for s in structs) + "\treturn: 0\n}"
    decls.append(main)
    rng.shuffle(decls)
    src = "\n\n".join(decls) + "\n"
    return src, cyc, consts, structs, edges, ptr_edges, decls


def run_graph(case):
    _, seed, i = case
    rng = common.rng_for(seed, PROP, "graph", i)
    src, cyc, consts, structs, edges, ptr_edges, decls = graph_source(rng, i)
    got = outcome(src)
    replay = {"source": src, "cycle": cyc}
    cov = {"graph_programs": 1, "graph_cyclic" if cyc else "graph_acyclic": 1}
    if got[0] == "crash":
        return {"verdict": VIOLATED, "sig": "dependency graph (%s): %s" % ("cyclic" if cyc else "acyclic", got[1]), "detail": got[1],
                "replay": replay, "cov": cov}
    if cyc:
        kinds = set("const" if n in consts else "struct" for n in cyc)
        cov["cycle_" + "+".join(sorted(kinds))] = 1
        cov["cycle_length_%d" % len(cyc)] = 1
        if got[0] == "ok":
            return {"verdict": VIOLATED, "sig": "cyclic %s dependency accepted" % "+".join(sorted(kinds)), "detail": cyc, "replay": replay, "cov": cov}
        if not (set(got[1]) & {413, 415, 416}):
            return {"verdict": VIOLATED, "sig": "cyclic %s dependency rejected with %s" % ("+".join(sorted(kinds)), list(got[1])),
                    "detail": cyc, "replay": replay, "cov": cov}
        expected = 413 if kinds == {"const"} else 415 if kinds == {"struct"} else 416
        cov["cycle_code_matches_kind" if expected in got[1] else "cycle_code_other_kind"] = 1
        return {"verdict": HELD, "cov": cov, "nt": "cyc:%s:%d" % ("+".join(sorted(kinds)), len(cyc))}
    if got[0] != "ok":
        return {"verdict": VIOLATED, "sig": "acyclic dependency graph rejected with %s" % list(got[1]), "detail": list(got[1]),
                "replay": replay, "cov": cov}
    # predicted values
    val = {}

    def size_of(s):
        off, maxal = 4, 4
        for m in edges[s]:
            if m in consts:
                off = (off + 3) // 4 * 4 + 4 * value_of(m)
            else:
                sz, al = size_of(m)
                reps = 1
                off = (off + al - 1) // al * al
                # member or [2]member: recover from the emitted text
                reps = 2 if re.search(r"ms\d+: \[2\]%s," % m, decl_of[s]) else 1
                off += sz * reps
                maxal = max(maxal, al)
        for (a, b) in ptr_edges:
            if a == s:
                off = (off + 7) // 8 * 8 + 8
                maxal = 8
        return (off + maxal - 1) // maxal * maxal, maxal

    def value_of(c):
        if c in val:
            return val[c]
        m = re.search(r"const %s: usize = (.*);" % c, src)
        total = 0
        for t in m.group(1).split(" + "):
            if t.isdigit():
                total += int(t)
            elif t.startswith("|:"):
                total += size_of(t[2:-1])[0]
            else:
                total += value_of(t)
        val[c] = total
        return total

    decl_of = {s: next(d for d in decls if d.startswith("struct %s\n" % s)) for s in structs}
    exp = [str(value_of(c)) for c in consts] + [str(size_of(s)[0]) for s in structs]
    lines = got[1][0].decode("latin-1").split("\n")[:len(exp)]
    if lines != exp:
        return {"verdict": VIOLATED, "sig": "constants/sizes of an acyclic graph differ from their definitions",
                "detail": {"expected": exp, "observed": lines}, "replay": replay, "cov": cov}
    return {"verdict": HELD, "cov": cov, "nt": "acyc:%d:%d:%d" % (len(consts), len(structs), sum(len(v) for v in edges.values())),
            "sample": {"source": src[:700], "values": lines} if i % 100 == 1 else None}


def find_cycle(edges):
    color = {}
    stack = []

    def dfs(n):
        color[n] = 1
        stack.append(n)
        for m in edges[n]:
            if color.get(m) == 1:
                return stack[stack.index(m):]
            if m not in color:
                c = dfs(m)
                if c:
                    return c
        color[n] = 2
        stack.pop()
        return None
    for n in edges:
        if n not in color:
            c = dfs(n)
            if c:
                return c
    return None


def pure_cycle_sources(lengths):
    """A single dependency cycle of each length, of structures / constants / alternating, in EVERY declaration order."""
    for n in lengths:
        for kind in ("struct", "const", "mixed"):
            decls = []
            for k in range(n):
                nxt = (k + 1) % n
                is_struct = kind == "struct" or (kind == "mixed" and k % 2 == 0)
                nxt_struct = kind == "struct" or (kind == "mixed" and nxt % 2 == 0)
                if is_struct:
                    member = "\tnext: N%d," % nxt if nxt_struct else "\tdata: [N%d]i32," % nxt
                    decls.append("struct N%d\n{\n\tbase: i32,\n%s\n}" % (k, member))
                else:
                    decls.append("const N%d: usize = 1 + %s;" % (k, ("|:N%d|" % nxt) if nxt_struct else "N%d" % nxt))
            main = "fn main() -> i32\n{\n\treturn: 0\n}"
            for order in itertools.permutations(range(n)):
                yield n, kind, order, "\n\n".join([decls[q] for q in order] + [main]) + "\n"


def run_pure_cycle(case):
    _, n, kind, order, src = case
    got = outcome(src, run=False)
    replay = {"source": src, "cycle_length": n, "kind": kind, "order": list(order)}
    cov = {"pure_cycles": 1, "pure_cycle_length_%d" % n: 1}
    if got[0] == "crash":
        return {"verdict": VIOLATED, "sig": "pure %s cycle of length %d: %s" % (kind, n, got[1]), "detail": got[1], "replay": replay, "cov": cov}
    if got[0] == "ok":
        return {"verdict": VIOLATED, "sig": "cyclic %s dependency of length %d accepted in some declaration order" % (kind, n),
                "detail": list(order), "replay": replay, "cov": cov}
    if not (set(got[1]) & {413, 415, 416}):
        return {"verdict": VIOLATED, "sig": "cyclic %s dependency of length %d rejected with %s in some declaration order" % (kind, n, list(got[1])),
                "detail": list(order), "replay": replay, "cov": cov}
    return {"verdict": HELD, "cov": cov, "nt": "purecycle:%s:%d:%s" % (kind, n, "".join(map(str, order)))}


# ---- 3. duplicates

def dup_cases():
    fillers = ["const F%d: i32 = %d;", "fn g%d()\n{\n}", "struct T%d\n{\n\ta: i32,\n}"]
    kinds = {
        "function": (["fn dup()\n{\n}", "fn dup(x: i32) -> i32\n{\n\treturn: x\n}", "fn dup();"], 421),
        "constant": (["const DUP: i32 = 1;", "const DUP: u8 = 2;", "const DUP: i32 = 1;"], 423),
        "structure": (["struct Dup\n{\n\ta: i32,\n}", "word16 Dup\n{\n\tr: i8,\n\tc: i8,\n}", "struct Dup\n{\n\tb: u8,\n}"], 425),
    }
    out = []
    for kind, (variants, code) in kinds.items():
        for a, b in itertools.permutations(range(len(variants)), 2):
            for dist in (0, 1, 3):
                for pos in (0, 2):
                    decls = [fillers[k % 3] % (k, k) if "%d;" in fillers[k % 3] else fillers[k % 3] % k for k in range(pos)]
                    decls.append(variants[a])
                    decls += [fillers[(k + 1) % 3] % ((10 + k, 10 + k) if "%d;" in fillers[(k + 1) % 3] else 10 + k) for k in range(dist)]
                    decls.append(variants[b])
                    decls.append("fn main() -> i32\n{\n\treturn: 0\n}")
                    out.append(("dup:%s:%d%d:d%d:p%d" % (kind, a, b, dist, pos), "\n\n".join(decls) + "\n", {code}))
    for n in (2, 3, 4):
        for a, b in itertools.combinations(range(n), 2):
            names = ["p%d" % k for k in range(n)]
            names[b] = names[a]
            out.append(("dup:parameter:%d:%d%d" % (n, a, b),
                        "fn f(%s)\n{\n}\n\nfn main() -> i32\n{\n\treturn: 0\n}\n" % ", ".join("%s: i32" % x for x in names), {424}))
            out.append(("dup:member:%d:%d%d" % (n, a, b),
                        "struct S\n{\n%s}\n\nfn main() -> i32\n{\n\treturn: 0\n}\n" % "".join("\t%s: i32,\n" % x for x in names), {426}))
            out.append(("dup:word_member:%d:%d%d" % (n, a, b),
                        "word%d S\n{\n%s}\n\nfn main() -> i32\n{\n\treturn: 0\n}\n" % (8 * n if n in (2, 4) else 32,
                        "".join("\t%s: %s,\n" % (x, "u8" if n in (2, 4) else ("u16" if q == 0 else "u8")) for q, x in enumerate(names))), {426}))
    # duplicates with a like-named declaration of the *other* namespace in between, before or after (constants and structures
    # share a name legally; two constants or two structures never do): every order of the three declarations
    trios = {
        "two_constants_one_structure": (["const Twin: i32 = 1;", "const Twin: i32 = 2;", "struct Twin\n{\n\ta: i32,\n}"], 423),
        "two_structures_one_constant": (["struct Twin\n{\n\ta: i32,\n}", "struct Twin\n{\n\tb: u8,\n}", "const Twin: i32 = 1;"], 425),
        "two_functions_one_constant": (["fn twin()\n{\n}", "fn twin() -> i32\n{\n\treturn: 1\n}", "const twin: i32 = 1;"], 421),
    }
    for tname, (decls3, code) in trios.items():
        for order in itertools.permutations(range(3)):
            src = "\n\n".join([decls3[k] for k in order] + ["fn main() -> i32\n{\n\treturn: 0\n}"]) + "\n"
            out.append(("dup:%s:%s" % (tname, "".join(map(str, order))), src, {code}))
    out.append(("dup:param_vs_constant", "const x: i32 = 1;\n\nfn f(x: i32)\n{\n}\n\nfn main() -> i32\n{\n\treturn: 0\n}\n", {424}))
    return out


# ---- 4. type x position

def type_table():
    """(name, source, expectation): set of codes, or 'accept'"""
    t = []
    PRE = "struct St\n{\n\ta: i32,\n}\n\nword32 Wd\n{\n\ta: i32,\n}\n\nconst N: usize = 3;\n\n"

    def mainless(body):
        return PRE + body + "\n\nfn main() -> i32\n{\n\treturn: 0\n}\n"
    # E350 arrays / slices of unsized elements
    for ty in ["[][]i32", "[10][]u8", "[2][:]u8", "[][..]u8", "[3]void", "[]void"]:
        # the property groups "invalid or misplaced types (E350-E359)": any code of that family rejects the type
        fam = set(range(350, 360))
        t.append(("E350:var:" + ty, mainless("fn f()\n{\n\tvar x: %s;\n}" % ty), fam))
        t.append(("E350:param:" + ty, mainless("fn f(x: %s);" % ty), fam))
        t.append(("E350:member:" + ty, mainless("struct Q\n{\n\tm: %s,\n}" % ty), fam))
    # E351 returns
    for ty in ["[1000]i32", "[]i32", "St", "[N]u8", "[2][2]i32"]:
        t.append(("E351:" + ty, mainless("fn f() -> %s;" % ty), {351}))
    for ty in ["i32", "u128", "bool", "char8", "usize", "Wd", "&i32", "&St"]:
        t.append(("ret_ok:" + ty, mainless("fn f() -> %s;" % ty), "accept"))
    # E352 void variable, E354 void parameter
    t.append(("E352:void", mainless("fn f()\n{\n\tvar x: void;\n}"), {352}))
    t.append(("E354:void", mainless("fn f(x: void);"), {354}))
    # E353 slice constant
    t.append(("E353:slice", mainless("const X: []i32 = [10, 20, 30];"), {353}))
    t.append(("const_ok:array", mainless("const X: [3]i32 = [10, 20, 30];"), "accept"))
    t.append(("const_ok:named_len", mainless("const X: [N]i32 = [10, 20, 30];"), "accept"))
    # E356 word members
    for ty in ["&i32", "[2]u8", "St", "usize", "char8", "[]u8"]:
        if ty in ("usize", "char8"):
            continue    # the docs list "fixed size integers, bool or other words"; these two are left open
        t.append(("E356:word:" + ty, mainless("word64 Q\n{\n\tx: %s,\n}" % ty), {356, 350}))
    for ty, bits in [("i32", 32), ("bool", 8), ("Wd", 32), ("u64", 64)]:
        t.append(("word_ok:" + ty, mainless("word%d Q\n{\n\tx: %s,\n}" % (bits, ty)), "accept"))
    # E358 extern ABI
    for ty in ["u128", "i128", "bool", "St", "Wd"]:      # char8 (an alias of u8 used by vendor:libc) is left open
        t.append(("E358:param:" + ty, mainless("extern fn f(x: %s);" % ty), {358}))
    for ty in ["u128", "i128", "bool", "Wd"]:
        t.append(("E358:ret:" + ty, mainless("extern fn f() -> %s;" % ty), {358}))
    for ty in ["i8", "i16", "i32", "i64", "u8", "u16", "u32", "u64", "usize", "[]u8", "&i32", "&[]u8", "&&i32"]:
        t.append(("extern_ok:param:" + ty, mainless("extern fn f(x: %s);" % ty), "accept"))
    for ty in ["i8", "i16", "i32", "i64", "u8", "u16", "u32", "u64", "usize"]:
        t.append(("extern_ok:ret:" + ty, mainless("extern fn f() -> %s;" % ty), "accept"))
    # E359 size of a slice
    for ty in ["[]u8", "[:]u8", "[]St"]:
        t.append(("E359:" + ty, mainless("const S: usize = |:%s|;" % ty), {359}))
    for ty in ["u8", "[4]u8", "St", "Wd", "[N]i32", "&i32"]:
        t.append(("sizeof_ok:" + ty, mainless("const S: usize = |:%s|;" % ty), "accept"))
    # E380 oversized word
    t.append(("E380:word64x3", mainless("word64 Q\n{\n\tx: i32,\n\ty: i32,\n\tz: i32,\n}"), {380}))
    t.append(("E380:word8", mainless("word8 Q\n{\n\tx: u16,\n}"), {380}))
    # every declared size x every member width that does not fit, alone and after a member that does
    widths = {"u8": 1, "i16": 2, "u32": 4, "i64": 8, "u128": 16, "i128": 16, "bool": 1}
    for bits in (8, 16, 32, 64, 128):
        for ty, w in widths.items():
            if w * 8 > bits:
                t.append(("E380:word%d:%s" % (bits, ty), mainless("word%d Q\n{\n\tx: %s,\n}" % (bits, ty)), {380}))
            elif w * 8 == bits:
                t.append(("word_fits:word%d:%s" % (bits, ty), mainless("word%d Q\n{\n\tx: %s,\n}" % (bits, ty)), "accept"))
                t.append(("E380:word%d:%s+u8" % (bits, ty), mainless("word%d Q\n{\n\tx: %s,\n\ty: u8,\n}" % (bits, ty)), {380}))
    t.append(("E380:word128:u128+u64", mainless("word128 Q\n{\n\ta: u128,\n\tb: u64,\n}"), {380}))
    t.append(("E380:word128:u64+u128", mainless("word128 Q\n{\n\ta: u64,\n\tb: u128,\n}"), {380}))
    t.append(("E380:word128:nested", mainless("word128 In\n{\n\ta: u128,\n}\n\nword128 Q\n{\n\ta: In,\n\tb: u8,\n}"), {380}))
    t.append(("word_fits:word128:nested", mainless("word128 In\n{\n\ta: u128,\n}\n\nword128 Q\n{\n\ta: In,\n}"), "accept"))
    # E433 non-constant length
    t.append(("E433:variable", mainless("fn f(n: usize)\n{\n\tvar m = n * 2;\n\tvar data: [m]u8;\n}"), {433}))
    t.append(("E433:parameter", mainless("fn f(n: usize)\n{\n\tvar data: [n]u8;\n}"), {433}))
    t.append(("len_ok:constant", mainless("fn f()\n{\n\tvar data: [N]u8;\n}"), "accept"))
    return t


def run_table(case):
    _, name, src, want = case
    got = outcome(src, run=False)
    replay = {"source": src, "row": name, "expected": "accept" if want == "accept" else sorted(want)}
    cov = {"table_rows": 1}
    if got[0] == "crash":
        return {"verdict": VIOLATED, "sig": "row %s: %s" % (name, got[1]), "detail": got[1], "replay": replay, "cov": cov}
    if want == "accept":
        if got[0] != "ok":
            return {"verdict": VIOLATED, "sig": "row %s: well-formed declaration rejected with %s" % (name, list(got[1])),
                    "detail": list(got[1]), "replay": replay, "cov": cov}
    else:
        if got[0] == "ok":
            return {"verdict": VIOLATED, "sig": "row %s: ill-formed declaration accepted" % name, "detail": name, "replay": replay, "cov": cov}
        if not (set(got[1]) & want):
            return {"verdict": VIOLATED, "sig": "row %s: rejected with %s instead of %s" % (name, list(got[1]), sorted(want)),
                    "detail": list(got[1]), "replay": replay, "cov": cov}
    return {"verdict": HELD, "cov": cov, "nt": "row:" + name}


# ---- 5. every value type up to nesting depth 3 in every declaration position

WRAPPERS = [("ptr", "&%s"), ("view", "(%s)"), ("slice", "[:]%s"), ("endless", "[..]%s"), ("arraylike", "[]%s"),
            ("array", "[4]%s"), ("named", "[N]%s")]
BASES = ["i32", "void", "St"]
POSITIONS = {
    "variable": "fn f()\n{\n\tvar x: %s;\n}",
    "constant": "const X: %s = 0;",
    "parameter": "fn f(x: %s);",
    "member": "struct Q\n{\n\tm: %s,\n}",
    "return": "fn f() -> %s;",
    "extern_param": "extern fn f(x: %s);",
    "extern_return": "extern fn f() -> %s;",
}
ENUM_PRE = "struct St\n{\n\ta: i32,\n}\n\nconst N: usize = 3;\n\n"


def enum_types(depth):
    """(wrapper names outermost first, base, text)"""
    out = []
    for base in BASES:
        level = [((), base, base)]
        out += level
        for _ in range(depth):
            nxt = []
            for (ws, b, text) in level:
                for name, fmt in WRAPPERS:
                    nxt.append(((name,) + ws, b, fmt % text))
            out += nxt
            level = nxt
    return out


def model_wellformed(ws, base):
    """The compositional rule of value_type.rs / docs E350 as a reference: an element must be sized and itself valid; behind a
    pointer or view there is no void, slice or view; the rule looks through any number of pointers."""
    def can_be_element(ws, base):
        if not ws:
            return base != "void"
        return ws[0] in ("array", "named", "arraylike", "ptr")

    def inner(ws, base):
        if not ws:
            return base != "void"
        w, rest = ws[0], ws[1:]
        if w in ("slice", "view"):
            return False
        if w == "ptr":
            return inner(rest, base)
        return can_be_element(rest, base) and inner(rest, base)

    if not ws:
        return True
    w, rest = ws[0], ws[1:]
    if w in ("ptr", "view"):
        return inner(rest, base)
    return can_be_element(rest, base) and inner(rest, base)


def run_type_enum(case):
    _, ws, base, text = case
    ws = tuple(ws)
    wf = model_wellformed(ws, base)
    cov = {"enum_types": 1, "enum_wellformed" if wf else "enum_illformed": 1}
    verdicts = {}
    for pos, fmt in POSITIONS.items():
        src = ENUM_PRE + (fmt % text) + "\n\nfn main() -> i32\n{\n\treturn: 0\n}\n"
        got = outcome(src, run=False)
        verdicts[pos] = got
        cov["enum_compiles"] = cov.get("enum_compiles", 0) + 1
        replay = {"source": src, "type": text, "position": pos, "model_wellformed": wf}
        shape = "%s of depth %d" % ("well-formed type" if wf else "ill-formed type", len(ws))
        if got[0] == "crash":
            return {"verdict": VIOLATED, "sig": "type `%s` as %s: %s" % (text, pos, got[1]), "detail": got[1], "replay": replay, "cov": cov}
        if not wf:
            if got[0] == "ok":
                return {"verdict": VIOLATED, "sig": "ill-formed type `%s` accepted as %s" % (text, pos), "detail": shape, "replay": replay,
                        "cov": cov}
            if not (set(got[1]) & set(range(350, 360))):
                return {"verdict": VIOLATED, "sig": "ill-formed type `%s` as %s rejected with %s only" % (text, pos, list(got[1])),
                        "detail": shape, "replay": replay, "cov": cov}
        else:
            if got[0] == "rejected" and 350 in got[1]:
                return {"verdict": VIOLATED, "sig": "well-formed type `%s` as %s rejected with E350" % (text, pos), "detail": shape,
                        "replay": replay, "cov": cov}
        cov["enum_%s_%s" % (pos, "accepted" if got[0] == "ok" else "rejected")] = 1
    return {"verdict": HELD, "cov": cov, "nt": "type:" + text,
            "sample": {"type": text, "model_wellformed": wf,
                       "accepted_as": sorted(p for p, g in verdicts.items() if g[0] == "ok")} if len(text) % 7 == 0 and len(ws) == 3 else None}


# ---- 6. constants whose array length is named: every permutation

def named_length_cases(rng, n):
    out = []
    for i in range(n):
        h = rng.randrange(1, 4)
        form = rng.choice(["literal", "derived", "sum", "sizeof", "sizeof_named", "sizeof_named_struct"])
        decls = ["const HALF: usize = %d;" % h]
        if form == "literal":
            size = h
            decls = ["const SIZE: usize = %d;" % h]
        elif form == "derived":
            size = 2 * h
            decls.append("const SIZE: usize = 2 * HALF;")
        elif form == "sum":
            size = h + 1
            decls.append("const SIZE: usize = HALF + 1;")
        elif form == "sizeof_named":
            # size-of of an array type whose length is a named constant, inside a constant's initialiser
            size = 2 * h
            decls.append("const SIZE: usize = |:[HALF]u16|;")
        elif form == "sizeof_named_struct":
            # ... and of a structure holding an array of structures with a named length
            size = 8 * h
            decls.append("struct Cell\n{\n\ta: i32,\n\tb: i32,\n}")
            decls.append("struct Grid\n{\n\tcells: [HALF]Cell,\n}")
            decls.append("const SIZE: usize = |:Grid|;")
        else:
            size = 4 * h
            decls.append("struct Pack\n{\n\tdata: [HALF]i32,\n}")
            decls.append("const SIZE: usize = |:Pack|;")
        vals = [rng.randrange(1, 90) for _ in range(size)]
        decls.append("const TABLE: [SIZE]i32 = [%s];" % ", ".join(map(str, vals)))
        holder = rng.choice([None, "[SIZE]i32", "&[SIZE]i32", "&&[SIZE]i32", "[2]&[SIZE]i32", "&[2][SIZE]i32"])
        if holder:
            decls.append("struct Holder\n{\n\trow: %s,\n}" % holder)
        if rng.random() < 0.5:
            # a constant and a structure may share a name (separate namespaces), in any order
            decls.append("const Twin: i32 = 0;")
            decls.append("struct Twin\n{\n\tx: i32,\n}")
            decls.append("fn twin() -> i32\n{\n\tvar t = Twin { x: Twin };\n\treturn: t.x\n}")
        decls.append("fn main() -> i32\n{\n\tvar total = 0;\n\tvar i: usize = 0;\n\t{\n\t\tif i == |TABLE|\n\t\t\tgoto end;\n"
                     "\t\ttotal = total + TABLE[i];\n\t\ti = i + 1;\n\t\tloop;\n\t}\n\tend:\n\tprint!(total, \"\\n\");\n\treturn: 0\n}")
        out.append(("named", decls, sum(vals), form))
    return out


def big_module_cases():
    """Modules with many top-level declarations (19..100): a chain of dependent constants, a chain of structures that contain the
    previous structure and an array with a named length, and functions between them; any order must be accepted and print the
    same values. (Sorting and grouping code can behave differently above small element counts.)"""
    out = []
    for n in (6, 9, 10, 11, 16, 20, 21, 22, 33, 50):
        decls = ["const K0: usize = 1;", "struct S0\n{\n\tdata: [K0]u8,\n}"]
        size = 1
        for i in range(1, n):
            decls.append("const K%d: usize = K%d + 1;" % (i, i - 1))
            decls.append("struct S%d\n{\n\tprev: S%d,\n\tdata: [K%d]u8,\n}" % (i, i - 1, i))
            size += i + 1
            if i % 3 == 0:
                decls.append("fn f%d(x: usize) -> usize\n{\n\treturn: x + K%d\n}" % (i, i))
        decls.append("fn main() -> i32\n{\n\tprint!(K%d, \" \", |:S%d|, \"\\n\");\n\treturn: 0\n}" % (n - 1, n - 1))
        out.append(("named", decls, "%d %d" % (n, size), "big%d" % len(decls)))
    return out


def run_named(case):
    _, decls, total, form = case
    cov = {"named_length_programs": 1, "named_form_" + form: 1}
    first = None
    if len(decls) <= 5:
        orders = list(itertools.permutations(range(len(decls))))
    else:
        prng = common.rng_for(len(decls), PROP, "named_orders", str(total))
        orders = [list(range(len(decls))), list(reversed(range(len(decls))))]
        for _ in range(118):
            o = list(range(len(decls)))
            prng.shuffle(o)
            orders.append(o)
    for p in orders:
        src = "\n\n".join(decls[q] for q in p) + "\n"
        got = outcome(src)
        cov["named_length_permutations"] = cov.get("named_length_permutations", 0) + 1
        replay = {"source": src, "order": list(p), "expected_output": total}
        if got[0] == "crash":
            return {"verdict": VIOLATED, "sig": "named array length (%s): %s" % (form, got[1]), "detail": got[1], "replay": replay, "cov": cov}
        if got[0] != "ok":
            return {"verdict": VIOLATED, "sig": "constant array with a named length (%s) rejected with %s in some declaration order"
                                                % (form, list(got[1])), "detail": list(p), "replay": replay, "cov": cov}
        if got[1][0].decode("latin-1").strip() != str(total):
            return {"verdict": VIOLATED, "sig": "constant array with a named length (%s): wrong output" % form,
                    "detail": {"expected": total, "observed": repr(got[1])[:200]}, "replay": replay, "cov": cov}
    return {"verdict": HELD, "cov": cov, "nt": "named:%s:%d" % (form, len(decls))}


def run_case(case):
    k = case[0]
    if k == "purecycle":
        return run_pure_cycle(case)
    if k == "enum":
        return run_type_enum(case)
    if k == "named":
        return run_named(case)
    if k == "perm":
        return run_perm(case)
    if k == "graph":
        return run_graph(case)
    return run_table(case)


def replay_file(path):
    with open(path) as f:
        data = json.load(f)
    common.ensure_worker("chk")
    rp = data["replay"]
    for key in ("source", "base", "permuted"):
        if key in rp:
            print(key, "->", repr(outcome(rp[key]))[:300])
    print("(re-run ./check C11 to judge)")
    return 0


def main(tier, seed, replay=None):
    if replay:
        return replay_file(replay)
    common.ensure_worker("chk")
    run = common.Run(PROP, tier, seed)
    q = tier == "quick"
    cases = [("perm", seed, i) for i in range(300 if q else 6000)]
    cases += [("graph", seed, i) for i in range(600 if q else 10000)]
    cases += [("purecycle", n, kind, order, src) for n, kind, order, src in pure_cycle_sources((1, 2, 3, 4, 5) if q else (1, 2, 3, 4, 5, 6))]
    cases += [("table", n, s, w) for n, s, w in dup_cases()]
    cases += [("table", n, s, w) for n, s, w in type_table()]
    cases += [("enum", ws, b, text) for ws, b, text in enum_types(3)]
    cases += named_length_cases(common.rng_for(seed, PROP, "named"), 40 if q else 400)
    cases += big_module_cases()
    for r in common.run_sharded(run_case, cases):
        if r.get("verdict") is None and "harness_error" not in r:
            run.merge_counters(r.get("cov"))
            continue
        run.feed(r)
    run.assumptions = [
        "permutation cases compare a program with itself in 6 other declaration orders (reversed + 5 random); one third carry an injected fault",
        "cycle cases: any of E413/E415/E416 is accepted for a cycle (which one matches the node kinds is recorded)",
        "type x position rows cover only what docs/errors.md and docs/features.md decide; usize/char8 word members are left open",
    ]
    return run.finish(
        rule="perm: generated programs x 6 permutations; graph: random dependency graphs over 1-4 constants and 1-4 structures (edges through "
             "expressions, |:S|, members, arrays of members, named lengths; pointers never an edge), half of them with one cycle closed; table: "
             "duplicate names in every order/distance and the documented type x position rules. distinct_nontrivial = distinct "
             "(outcome, fault, #declarations) / graph shapes / table rows",
        min_evaluations=300)
