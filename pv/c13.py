"""C13 - diagnostics are well-located, documented and deterministic.

Monitors over failing (and accepted) inputs of the hostile workloads:
 1. catalogue: every error / lint code has a heading in docs/errors.md (read from /repo at run time);
 2. location (hook H1 = primary location): names an input file, lies inside its text, starts on the reported
    line; for injected lexical faults the span overlaps the injected lexeme;
 3. rendering in {colour, no colour} x {unicode, ascii}: no failure, code tag present, no ESC without colour,
    ASCII arrows really ASCII;
 4. determinism: each input compiled in three different fresh worker processes gives the same verdict, the same
    ordered list of (code, location), the same rendered diagnostics (4 colour/charset configurations) and the same IR text."""
import json
import os
import re

from . import common, gen_mutate, gen_prog, c01
from .common import HELD, VIOLATED, INCONCLUSIVE

PROP = "C13"

_catalogue = None


def catalogue():
    global _catalogue
    if _catalogue is None:
        text = open(os.path.join(common.REPO, "docs", "errors.md"), encoding="utf-8").read()
        _catalogue = set(int(m.group(2)) for m in re.finditer(r"(?m)^## (Error|Lint) code [EL](\d+)", text))
        if len(_catalogue) < 50:
            raise common.HarnessError("could not read the error catalogue from docs/errors.md")
    return _catalogue


def request(files, render, spanmon=False):
    return {"op": "alpha_compile", "files": [{"path": p, "src": s} for p, s in files], "ir": True, "module_ir": True,
            "render": render, "spanmon": spanmon}


def digest(kind, r):
    """What must be identical across processes."""
    if kind == "crash":
        return ("crash", r.signature())
    if kind == "panic":
        return ("panic", common.panic_signature(r))
    if r["status"] == "ok":
        return ("ok", tuple((l["code"], l["file"], l["start"], l["end"], l["line"]) for l in r.get("lints", [])),
                common.stable_hash([r.get("module_irs"), r.get("ir")]), common.stable_hash(r.get("lint_renders")))
    return (r["status"], r.get("stage"), tuple((e["code"], e["file"], e["start"], e["end"], e["line"], e["line_offset"])
                                                for e in r.get("errors", [])),
            common.stable_hash([r.get("renders"), r.get("lint_renders")]))


def line_of(text, pos):
    """1-based line (as `str::lines` counts them) containing character offset pos."""
    return text.count("\n", 0, pos) + 1


def check_locations(diags, files, fault, problems, cov):
    texts = dict(files)
    for d in diags:
        cov["diagnostics"] = cov.get("diagnostics", 0) + 1
        cov["code_%d" % d["code"]] = cov.get("code_%d" % d["code"], 0) + 1
        if d["code"] not in catalogue():
            problems.append(("code %s%d is not in the published catalogue (docs/errors.md)" %
                             ("L" if d["code"] >= 1000 else "E", d["code"]), d))
        if d["file"] not in texts:
            problems.append(("diagnostic names a file that is not among the inputs", d))
            continue
        text = texts[d["file"]]
        n = len(text)
        if not (0 <= d["start"] <= d["end"] <= max(n, 1)):
            where = "ends %d past the end of the file" % (d["end"] - n) if d["start"] <= n else "starts past the end of the file"
            problems.append(("span outside the source text: %s%d %s" % ("L" if d["code"] >= 1000 else "E", d["code"], where),
                             dict(d, length=n)))
            continue
        if text and d["start"] < n:
            want = line_of(text, d["start"])
            if want != d["line"]:
                crlf = "\r\n" in text[:d["start"]]
                problems.append(("span does not start on the reported line%s" % (" (CRLF file)" if crlf else ""),
                                 dict(d, line_of_span=want)))
        elif text and d["start"] >= n:
            cov["location_at_end_of_file"] = cov.get("location_at_end_of_file", 0) + 1
    if fault is not None:
        cov["faults_with_known_lexeme"] = cov.get("faults_with_known_lexeme", 0) + 1
        hits = [d for d in diags if d["code"] in fault["codes"] and d["file"] == fault["file"]
                and d["start"] < fault["end"] and d["end"] > fault["start"]]
        if not hits:
            problems.append(("no diagnostic with code %s covers the injected %s" % (sorted(fault["codes"]), fault["kind"]),
                             {"fault": fault, "diagnostics": diags[:5]}))


def check_renders(renders, problems, cov, sources=""):
    for item in renders:
        code = item["code"]
        tag = "[%s%d]" % ("L" if code >= 1000 else "E", code)
        for rd in item["renders"]:
            cov["renderings"] = cov.get("renderings", 0) + 1
            conf = "colour=%s ascii=%s" % (rd["color"], rd["ascii"])
            text = rd["text"]
            if not rd["ok"] or not text.strip():
                problems.append(("rendering fails or is empty (%s)" % conf, {"code": code}))
                continue
            plain = re.sub("\x1b\\[[0-9;]*m", "", text)
            if tag not in plain:
                problems.append(("rendered report lacks its code tag (%s)" % conf, {"code": code, "head": plain[:80]}))
            if not rd["color"] and "\x1b" in text and "\x1b" not in sources:
                problems.append(("ESC byte in a rendering without colour", {"code": code}))
            if rd["ascii"]:
                # drawing characters must be ASCII; quoted source lines (after ' | ') and messages may quote the input
                for line in plain.split("\n"):
                    m = re.match(r"^\s*\d*\s*[|,`'-]", line)
                    frame = line
                    if re.match(r"^\s*\d+ \| ", line):
                        continue          # the quoted source line itself
                    for ch in frame:
                        if ord(ch) in range(0x2500, 0x2580) or ch in "╭╮╯╰│─┬┴":
                            problems.append(("box-drawing character in a rendering with ASCII arrows", {"code": code, "line": line[:80]}))
                            break


_procs = None


def three_workers():
    global _procs
    if _procs is None:
        _procs = [common.Worker("chk") for _ in range(3)]
    return _procs


def run_case(case):
    files = case["files"]
    fault = case.get("fault")
    ws = three_workers()
    results = []
    for j, w in enumerate(ws):
        resp, crash = w.request(request(files, render=True), timeout=60)
        if crash is not None:
            if crash.kind == "hang":
                return {"verdict": INCONCLUSIVE, "detail": "worker did not answer"}
            results.append(("crash", crash))
        elif resp.get("status") == "panic":
            results.append(("panic", resp))
        else:
            results.append(("resp", resp))
    cov = {"kind:" + case["kind"]: 1, "compilations": 3}
    problems = []
    digests = [digest(k, r) for k, r in results]
    if len(set(digests)) > 1:
        what = "verdict"
        if all(d[0] == digests[0][0] for d in digests):
            if not all(d[:-1] == digests[0][:-1] for d in digests):
                what = "IR text" if digests[0][0] == "ok" and all(d[1] == digests[0][1] for d in digests) else "list of diagnostics"
            else:
                what = "rendered diagnostic text"
        problems.append(("repeated compilation in fresh processes gives a different %s" % what,
                         {"digests": [repr(d)[:300] for d in digests]}))
    # location monitor over the parsed tree (separate request: it stops at the first bad location)
    resp, crash = ws[0].request(request(files, render=False, spanmon=True), timeout=60)
    if crash is None and resp.get("status") == "spanmon":
        bad = resp.get("bad") or [{}]
        backwards = [b for b in bad if b.get("start", 0) > b.get("end", 0)]
        problems.append(("syntax tree node carries a location whose start is after its end" if backwards else
                         "syntax tree node carries a location that ends %d past the end of the source" % (bad[0].get("end", 0) - bad[0].get("chars", 0)),
                         bad))
    elif crash is None:
        cov["tree_locations_checked"] = resp.get("spans_checked", 0)
    kind, r = results[0]
    if kind == "resp":
        diags = list(r.get("errors") or []) + list(r.get("lints") or [])
        check_locations(diags, files, fault, problems, cov)
        check_renders((r.get("renders") or []) + (r.get("lint_renders") or []), problems, cov,
                      sources="".join(t for _p, t in files))
        cov["status_" + r["status"]] = 1
    else:
        cov["status_crash"] = 1     # C02's business
    if not problems:
        if kind != "resp":
            return {"verdict": None, "cov": cov}
        codes = sorted(set(d["code"] for d in (r.get("errors") or []) + (r.get("lints") or [])))
        out = {"verdict": HELD, "cov": cov, "nt": "%s|%s|%s" % (case["kind"].split(":")[0], r["status"], codes[:4])}
        if case.get("want_sample") and r["status"] == "errors":
            out["sample"] = {"kind": case["kind"], "diagnostics": (r.get("errors") or [])[:3], "fault": fault}
        return out
    sig, detail = problems[0]
    return {"verdict": VIOLATED, "sig": sig, "detail": detail, "cov": cov, "replay": {"files": files, "fault": fault},
            "more_violations": [{"sig": s, "detail": d, "replay": {"files": files, "fault": fault}} for s, d in problems[1:4]]}


ILLEGAL = ["@", "#", "$", "~", "`", "?", "é", "€", "\\"]


def inject_lexical_fault(rng, path, text):
    """Returns (new text, fault description with the character span of the injected lexeme) or None."""
    toks = gen_mutate.tokenize(text)
    pos = 0
    spans = []
    for t in toks:
        spans.append((pos, pos + len(t), t))
        pos += len(t)
    kind = rng.choice(["illegal_char", "illegal_char", "bad_escape", "bad_suffix", "unclosed_quote"])
    if kind == "illegal_char":
        gaps = [s for s, e, t in spans if t.strip() == "" and "\n" not in t]
        if not gaps:
            return None
        p = rng.choice(gaps)
        ch = rng.choice(ILLEGAL)
        return text[:p] + ch + text[p:], {"kind": "illegal character", "codes": [110], "file": path, "start": p, "end": p + 1}
    if kind == "bad_escape":
        strs = [(s, e) for s, e, t in spans if t.startswith('"') and t.endswith('"') and len(t) >= 2]
        if not strs:
            return None
        s, e = rng.choice(strs)
        new = text[:s + 1] + "\\q" + text[s + 1:]
        return new, {"kind": "invalid escape", "codes": [162], "file": path, "start": s, "end": e + 2}
    if kind == "bad_suffix":
        nums = [(s, e) for s, e, t in spans if re.fullmatch(r"[1-9][0-9]*", t)]
        if not nums:
            return None
        s, e = rng.choice(nums)
        new = text[:e] + "q7" + text[e:]
        return new, {"kind": "invalid integer suffix", "codes": [141], "file": path, "start": s, "end": e + 2}
    if kind == "unclosed_quote":
        strs = [(s, e) for s, e, t in spans if t.startswith('"') and t.endswith('"') and len(t) >= 2 and "\\" not in t]
        # only lines holding a single string literal and nothing quote-like, so that the rest of the line becomes the lexeme
        def alone(s, e):
            ls = text.rfind("\n", 0, s) + 1
            le = text.find("\n", e)
            le = len(text) if le < 0 else le
            line = text[ls:s] + text[e:le]
            return '"' not in line and "'" not in line and "//" not in line
        strs = [(s, e) for s, e in strs if alone(s, e)]
        if not strs:
            return None
        s, e = rng.choice(strs)
        new = text[:e - 1] + text[e:]
        eol = new.find("\n", s)
        eol = len(new) if eol < 0 else eol
        return new, {"kind": "unclosed string", "codes": [160, 161, 162], "file": path, "start": s, "end": eol}
    return None


def clean_corpus():
    out = []
    w = common.Worker("chk")
    for p, t in gen_mutate.corpus():
        resp, crash = w.request(request([(p, t)], False), timeout=60)
        if crash is None and resp.get("status") == "ok":
            out.append((p, t))
    w.stop()
    if len(out) < 20:
        raise common.HarnessError("too few cleanly compiling corpus files (%d)" % len(out))
    return out


def cases(tier, seed):
    rng = common.rng_for(seed, PROP)
    quick = tier == "quick"
    corpus = gen_mutate.corpus()
    n = 0
    # corpus (valid and invalid samples), also as CRLF and with a multi-byte comment in front
    for j, (p, t) in enumerate(corpus):
        if quick and j % 3 and not p.startswith("docs/"):
            continue
        yield {"kind": "corpus", "files": [(p, t)], "want_sample": j == 0}
        yield {"kind": "corpus_crlf", "files": [(p, t.replace("\r\n", "\n").replace("\n", "\r\n"))]}
        yield {"kind": "corpus_multibyte", "files": [(p, "// é€\U0001d11e café\n" + t)]}
    # injected lexical faults with a known lexeme, into files that compile cleanly on their own
    # (so that no other diagnostic can mask the injected one)
    clean = clean_corpus()
    for i in range(300 if quick else 20000):
        p, t = rng.choice(clean)
        variant = rng.random()
        if variant < 0.3:
            t = t.replace("\r\n", "\n").replace("\n", "\r\n")
        elif variant < 0.5:
            t = "// é€ 日本\n" + t
        res = inject_lexical_fault(rng, p, t)
        if res is None:
            continue
        t2, fault = res
        yield {"kind": "lexical_fault:" + fault["kind"].replace(" ", "_"), "files": [(p, t2)], "fault": fault, "want_sample": i < 3}
    # semantic faults (mutants), single module
    for i in range(500 if quick else 40000):
        p, t = rng.choice(corpus)
        op, t2 = gen_mutate.mutate(rng, t)
        if rng.random() < 0.2:
            t2 = t2.replace("\r\n", "\n").replace("\n", "\r\n")
        yield {"kind": "mutant:" + op, "files": [(p, t2)]}
    # generated programs with one fault; accepted generated programs (IR determinism)
    for i in range(80 if quick else 4000):
        prog, _c, prng = c01.make_program(seed + 13, i)
        src = gen_prog.to_source(prog)
        yield {"kind": "generated", "files": [("gen.pn", src)]}
        op, src2 = gen_mutate.mutate(prng, src, op=prng.choice(["tok_type", "rename_use", "num_edit", "amp", "tok_delete"]))
        yield {"kind": "generated_fault:" + op, "files": [("gen.pn", src2)]}
    # multi-module: import closures (declaration order of imports feeds the IR), faults in imported modules, token soup
    sets = gen_mutate.corpus_import_sets()
    for fs in sets:
        yield {"kind": "modules", "files": fs}
        yield {"kind": "modules_reversed", "files": list(reversed(fs))}
    for i in range(60 if quick else 4000):
        fs = [list(x) for x in rng.choice(sets)]
        j = rng.randrange(len(fs))
        op, fs[j][1] = gen_mutate.mutate(rng, fs[j][1])
        yield {"kind": "modules_fault", "files": [tuple(x) for x in fs]}
    # a module importing several others: the order in which imports are spliced in must not depend on hashing
    many = [("lib%d.pn" % k, "pub fn lib%d_f(x: i32) -> i32\n{\n\treturn: x + %d\n}\n\npub const LIB%d_K: i32 = %d;\n" % (k, k, k, k))
            for k in range(6)]
    main = "".join('import "lib%d.pn";\n' % k for k in range(6)) + "\nfn main() -> i32\n{\n\treturn: " + \
           " + ".join("lib%d_f(LIB%d_K)" % (k, k) for k in range(6)) + "\n}\n"
    for rep in range(3 if quick else 40):
        order = many[:]
        rng.shuffle(order)
        yield {"kind": "many_imports", "files": [("main.pn", main)] + order}
    for i in range(100 if quick else 5000):
        yield {"kind": "soup", "files": [("soup.pn", gen_mutate.token_soup(rng, rng.choice([4, 10, 30])))]}
    # faults at the very end of a file without final newline (nothing may be located past the last character)
    for tail in ('"abc\\', "'\\", '"abc', "'a", '"a\\x4', '"\\u{41', "12q", "@", '"é\\', "cast", "x =", "x = 1 +", "|:", "&"):
        for lead in ("fn main()\n{\n\tvar x = ", "fn main()\r\n{\r\n\tvar x = ", "// é€\nfn main()\n{\n\tx = "):
            yield {"kind": "end_of_file", "files": [("eof.pn", lead + tail)]}
    # the verdict table of C07 as a zoo of diagnostics: every type-breaking edit over all primitive type pairs reaches note and
    # label variants that no sample file has (each must render, without ESC when colours are off, and deterministically)
    from . import c07
    rows = c07.edits()
    step = 4 if quick else 1
    for k, row in enumerate(rows):
        if k % step == (seed % step):
            yield {"kind": "type_rule_row", "files": [("row.pn", row[1])]}
    # diagnostics whose subject spans several lines (adjacent string literals, array / structure literals, calls, bracketed
    # operations): the reported line must be the line the span starts on
    subjects = {
        "strings": '"first "\n\t\t"second "\n\t\t"third\\n"',
        "strings_crlf_like": '"a"\n\n\t\t"b"',
        "array": "[1,\n\t\t2,\n\t\t3]",
        "struct": "Pt {\n\t\tx: 1,\n\t\ty: 2,\n\t}",
        "call": "make(1,\n\t\t2)",
        "paren": "(flag\n\t\t== flag)",
        "bool_op": "flag\n\t\t== flag",
    }
    pre = "struct Pt\n{\n\tx: i32,\n\ty: i32,\n}\n\nfn make(a: i32, b: i32) -> bool\n{\n\treturn: a == b\n}\n\nfn take(v: u64)\n{\n}\n\n"
    for name, text in subjects.items():
        for lead in ("", "// é€ comment\n", "\n\n"):
            uses = {
                "init": "fn main()\n{\n\tvar flag = true;\n\tvar v: u64 =\n\t\t%s;\n}\n" % text,
                "assign": "fn main()\n{\n\tvar flag = true;\n\tvar v: u64 = 0;\n\tv = %s;\n}\n" % text,
                "argument": "fn main()\n{\n\tvar flag = true;\n\ttake(%s);\n}\n" % text,
                "return": "fn get() -> u64\n{\n\tvar flag = true;\n\treturn: %s\n}\n" % text,
                "condition": "fn main()\n{\n\tvar flag = true;\n\tif %s == 1u64\n\t{\n\t}\n}\n" % text,
            }
            for use, body in uses.items():
                yield {"kind": "multiline_subject:%s:%s" % (name, use), "files": [("subject.pn", lead + pre + body)]}
    # chains of one operator with an operand of another type at a known position: the diagnostic must cover the operator that
    # joins the offending operand (or the operand itself), not an earlier one, also when the chain runs over several lines
    for op in ("|", "&", "^", "+", "-", "*", "/", "%"):
        for n_ops in (3, 4, 6):
            for j in range(1, n_ops):
                for sep in (" ", "\n\t\t"):
                    head = "fn main()\n{\n\tvar a: u32 = 1;\n\tvar b: u32 = 2;\n\tvar w: u16 = 3;\n\tvar r: u32 = "
                    text = head
                    for k in range(n_ops):
                        if k:
                            if k == j:
                                f_start = len(text) + len(sep)
                            text += sep + op + " "
                        text += "w" if k == j else ("a" if k % 2 == 0 else "b")
                        if k == j:
                            f_end = len(text)
                    text += ";\n}\n"
                    yield {"kind": "operator_chain:%s" % ("bitwise" if op in "|&^" else "shift" if op == "<<" else "arithmetic"),
                           "files": [("chain.pn", text)],
                           "fault": {"file": "chain.pn", "start": f_start, "end": f_end, "codes": [551], "kind": "operand of another type in a chain"}}
    # dependency graphs: cyclic ones are rejected with E413/E415/E416, whose text names members of the cycle
    from . import c11
    for i in range(200 if quick else 6000):
        g_rng = common.rng_for(seed, PROP, "depgraph", i)
        yield {"kind": "depgraph", "files": [("graph.pn", c11.graph_source(g_rng, i)[0])]}
    for n_, kind_, order_, src in c11.pure_cycle_sources((2, 3, 4) if quick else (1, 2, 3, 4, 5)):
        yield {"kind": "depcycle", "files": [("cycle.pn", src)]}


def replay_file(path):
    with open(path) as f:
        data = json.load(f)
    common.ensure_worker("chk")
    rp = data["replay"]
    r = run_case({"kind": "replay", "files": [tuple(x) for x in rp["files"]], "fault": rp.get("fault")})
    for w in three_workers():
        w.stop()
    if r.get("verdict") == VIOLATED:
        print(r["sig"], str(r["detail"])[:400])
        print("VIOLATION property=%s replay=%s" % (PROP, path))
        return 1
    print("replay: property holds on this input now")
    return 0


def main(tier, seed, replay=None):
    if replay:
        return replay_file(replay)
    common.ensure_worker("chk")
    catalogue()
    run = common.Run(PROP, tier, seed)
    for r in common.run_sharded(run_case, cases(tier, seed)):
        if r.get("verdict") is None and "harness_error" not in r:
            run.merge_counters(r.get("cov"))
            continue
        run.feed(r)
    run.assumptions = [
        "location = the primary location of the diagnostic (hook H1); for semantic diagnostics only 'inside the named file' and 'starts on the "
        "reported line' are asserted, 'covers the offending text' is asserted for injected lexical faults whose lexeme is known",
        "determinism: three long-lived worker processes (three different hash seeds / address spaces) compile every input; lists are compared in order",
        "catalogue = the `## Error code` / `## Lint code` headings of docs/errors.md in /repo",
    ]
    codes = sorted(int(k[5:]) for k in run.counters if k.startswith("code_"))
    return run.finish(
        rule="inputs: corpus (plain, CRLF, multi-byte prefix), injected lexical faults with a known lexeme, corpus mutants, generated programs with "
             "and without a fault, import closures (also reversed, also with a fault in an imported module), a module with six imports in random "
             "file orders, token soup; each compiled in 3 processes. distinct_nontrivial = distinct (workload, status, first codes)",
        coverage_extra={"distinct_codes_observed": codes, "renderings_checked": int(run.counters.get("renderings", 0)),
                        "diagnostics_checked": int(run.counters.get("diagnostics", 0))},
        min_evaluations=300)
