"""Small-scope enumerators and random bodies for C04 / C05 / C06, over the G1 statement tuples."""
from .gen_prog import P, Program

I32 = P("i32")
X = ("read", I32, ("x", ()))


def lit(v):
    return ("lit", I32, v)


def cond_true():
    return ("==", X, X)


def cond_false():
    return ("!=", X, X)


def bump(k):
    """x = x + k;   (k a power of two: the set of executed bumps is visible in the result)"""
    return ("assign", ("x", ()), ("bin", I32, "+", X, lit(k)))


def seqs(k, d, atoms, block_ctor=None, cache=None):
    """All statement lists with exactly k statement nodes and block nesting <= d."""
    if cache is None:
        cache = {}
    key = (k, d)
    if key in cache:
        return cache[key]
    if k == 0:
        cache[key] = [[]]
        return cache[key]
    out = []
    for s in range(1, k + 1):
        firsts = stmts_of_size(s, d, atoms, block_ctor, cache)
        if not firsts:
            continue
        rests = seqs(k - s, d, atoms, block_ctor, cache)
        for f in firsts:
            for r in rests:
                out.append([f] + r)
    cache[key] = out
    return out


def stmts_of_size(s, d, atoms, block_ctor, cache):
    if s == 1:
        out = list(atoms)
        if d > 0:
            out.append(("block", []))
        return out
    if d <= 0:
        return []
    return [("block", b) for b in seqs(s - 1, d - 1, atoms, block_ctor, cache)]


def renumber_bumps(body):
    """Give every `bump` its own power of two, in textual order."""
    counter = [0]

    def fix(stmts):
        out = []
        for st in stmts:
            if st[0] == "assign" and st[1] == ("x", ()) and st[2][0] == "bin" and st[2][4][0] == "lit":
                out.append(bump(1 << min(counter[0], 20)))
                counter[0] += 1
            elif st[0] == "block":
                out.append(("block", fix(st[1])))
            elif st[0] == "if":
                out.append(("if", st[1], fix_branch(st[2]), fix_branch(st[3])))
            else:
                out.append(st)
        return out

    def fix_branch(b):
        if b is None:
            return None
        if b[0] == "block":
            return ("block", fix(b[1]))
        if b[0] == "nakedblock":
            return ("nakedblock", fix(b[1]))
        if b[0] == "if":
            return fix([b])[0]
        if b[0] == "assign":
            return fix([b])[0]
        return b

    return fix(body)


def first_label_is_a(body):
    """Canonical representative under the a<->b renaming: the first label *name* mentioned is `a`."""
    def names(stmts):
        for st in stmts:
            if st[0] in ("label", "goto"):
                yield st[1]
            elif st[0] == "if":
                for br in (st[2], st[3]):
                    if br is not None and br[0] == "goto":
                        yield br[1]
                    elif br is not None and br[0] == "block":
                        yield from names(br[1])
            elif st[0] == "block":
                yield from names(st[1])
    for n in names(body):
        return n == "a"
    return True


def program_with_main(body, ret_x=True, extra_funcs=None, prelude=None):
    """fn main() -> i32 { var x: i32 = 0; <body> return: x }"""
    p = Program()
    f = {"name": "main", "params": [], "ret": I32,
         "body": (prelude if prelude is not None else [("var", "x", I32, lit(0))]) + list(body),
         "ret_expr": X, "effectful": False, "index": 0}
    p.funcs = list(extra_funcs or []) + [f]
    return p


C04_ATOMS = [("label", "a"), ("label", "b"), ("goto", "a"), ("goto", "b"),
             ("if", cond_true(), ("goto", "a"), None), ("if", cond_true(), ("goto", "b"), None), bump(1)]


def c04_bodies(max_size, depth):
    cache = {}
    for k in range(0, max_size + 1):
        for b in seqs(k, depth, C04_ATOMS, None, cache):
            if first_label_is_a(b):
                yield b


def random_body(rng, n, depth, labels, with_if_blocks=True, with_loops=False, with_vars=None):
    """Random statement list (may well be illegal); used by C04/C05/C06 beyond the exhaustive scope."""
    out = []
    for _ in range(n):
        c = rng.random()
        if c < 0.2:
            out.append(("label", rng.choice(labels)))
        elif c < 0.35:
            out.append(("goto", rng.choice(labels)))
        elif c < 0.5:
            out.append(("if", rng.choice([cond_true(), cond_false()]), ("goto", rng.choice(labels)), None))
        elif c < 0.65 or depth <= 0:
            if with_vars and rng.random() < 0.6:
                v = rng.choice(with_vars)
                if rng.random() < 0.4:
                    out.append(("var", v, I32, lit(rng.randrange(1, 9))))
                else:
                    out.append(("assign", ("x", ()), ("bin", I32, "+", X, ("read", I32, (v, ())))))
            else:
                out.append(bump(1))
        elif c < 0.8:
            out.append(("block", random_body(rng, rng.randrange(0, 4), depth - 1, labels, with_if_blocks, with_loops, with_vars)))
        elif with_if_blocks:
            then = ("block", random_body(rng, rng.randrange(0, 3), depth - 1, labels, with_if_blocks, with_loops, with_vars))
            r = rng.random()
            if r < 0.4:
                els = None
            elif r < 0.7:
                els = ("block", random_body(rng, rng.randrange(0, 3), depth - 1, labels, with_if_blocks, with_loops, with_vars))
            elif r < 0.85:
                els = ("goto", rng.choice(labels))
            else:
                els = ("if", cond_false(), ("block", random_body(rng, rng.randrange(0, 2), depth - 1, labels,
                                                                  with_if_blocks, with_loops, with_vars)), None)
            out.append(("if", rng.choice([cond_true(), cond_false()]), then, els))
        else:
            out.append(bump(1))
    return out
