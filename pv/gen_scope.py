"""Small-scope enumerators and random bodies for C04 / C05 / C06, over the G1 statement tuples."""
from .gen_prog import P, Program

I32 = P("i32")
X = ("read", I32, ("x", ()))


def lit(v):
    return ("lit", I32, v)


def cond_true():
    return ("==", X, X)


def cond_false():
    return ("!=", X, X)


def bump(k):
    """x = x + k;   (k a power of two: the set of executed bumps is visible in the result)"""
    return ("assign", ("x", ()), ("bin", I32, "+", X, lit(k)))


def seqs(k, d, atoms, block_ctor=None, cache=None):
    """All statement lists with exactly k statement nodes and block nesting <= d."""
    if cache is None:
        cache = {}
    key = (k, d)
    if key in cache:
        return cache[key]
    if k == 0:
        cache[key] = [[]]
        return cache[key]
    out = []
    for s in range(1, k + 1):
        firsts = stmts_of_size(s, d, atoms, block_ctor, cache)
        if not firsts:
            continue
        rests = seqs(k - s, d, atoms, block_ctor, cache)
        for f in firsts:
            for r in rests:
                out.append([f] + r)
    cache[key] = out
    return out


def stmts_of_size(s, d, atoms, block_ctor, cache):
    if s == 1:
        out = list(atoms)
        if d > 0:
            out.append(("block", []))
        return out
    if d <= 0:
        return []
    return [("block", b) for b in seqs(s - 1, d - 1, atoms, block_ctor, cache)]


def renumber_bumps(body):
    """Give every `bump` its own power of two, in textual order."""
    counter = [0]

    def fix(stmts):
        out = []
        for st in stmts:
            if st[0] == "assign" and st[1] == ("x", ()) and st[2][0] == "bin" and st[2][4][0] == "lit":
                out.append(bump(1 << min(counter[0], 20)))
                counter[0] += 1
            elif st[0] == "block":
                out.append(("block", fix(st[1])))
            elif st[0] == "if":
                out.append(("if", st[1], fix_branch(st[2]), fix_branch(st[3])))
            else:
                out.append(st)
        return out

    def fix_branch(b):
        if b is None:
            return None
        if b[0] == "block":
            return ("block", fix(b[1]))
        if b[0] == "nakedblock":
            return ("nakedblock", fix(b[1]))
        if b[0] == "if":
            return fix([b])[0]
        if b[0] == "assign":
            return fix([b])[0]
        return b

    return fix(body)


def first_label_is_a(body):
    """Canonical representative under the a<->b renaming: the first label *name* mentioned is `a`."""
    def names(stmts):
        for st in stmts:
            if st[0] in ("label", "goto"):
                yield st[1]
            elif st[0] == "if":
                for br in (st[2], st[3]):
                    if br is not None and br[0] == "goto":
                        yield br[1]
                    elif br is not None and br[0] == "block":
                        yield from names(br[1])
            elif st[0] == "block":
                yield from names(st[1])
    for n in names(body):
        return n == "a"
    return True


def program_with_main(body, ret_x=True, extra_funcs=None, prelude=None):
    """fn main() -> i32 { var x: i32 = 0; <body> return: x }"""
    p = Program()
    f = {"name": "main", "params": [], "ret": I32,
         "body": (prelude if prelude is not None else [("var", "x", I32, lit(0))]) + list(body),
         "ret_expr": X, "effectful": False, "index": 0}
    p.funcs = list(extra_funcs or []) + [f]
    return p


C04_ATOMS = [("label", "a"), ("label", "b"), ("goto", "a"), ("goto", "b"),
             ("if", cond_true(), ("goto", "a"), None), ("if", cond_true(), ("goto", "b"), None), bump(1)]


def c04_bodies(max_size, depth):
    cache = {}
    for k in range(0, max_size + 1):
        for b in seqs(k, depth, C04_ATOMS, None, cache):
            if first_label_is_a(b):
                yield b


def random_body(rng, n, depth, labels, with_if_blocks=True, with_loops=False, with_vars=None):
    """Random statement list (may well be illegal); used by C04/C05/C06 beyond the exhaustive scope."""
    out = []
    for _ in range(n):
        c = rng.random()
        if c < 0.2:
            out.append(("label", rng.choice(labels)))
        elif c < 0.35:
            out.append(("goto", rng.choice(labels)))
        elif c < 0.5:
            out.append(("if", rng.choice([cond_true(), cond_false()]), ("goto", rng.choice(labels)), None))
        elif c < 0.65 or depth <= 0:
            if with_vars and rng.random() < 0.6:
                v = rng.choice(with_vars)
                if rng.random() < 0.4:
                    out.append(("var", v, I32, lit(rng.randrange(1, 9))))
                else:
                    out.append(("assign", ("x", ()), ("bin", I32, "+", X, ("read", I32, (v, ())))))
            else:
                out.append(bump(1))
        elif c < 0.8:
            out.append(("block", random_body(rng, rng.randrange(0, 4), depth - 1, labels, with_if_blocks, with_loops, with_vars)))
        elif with_if_blocks:
            then = ("block", random_body(rng, rng.randrange(0, 3), depth - 1, labels, with_if_blocks, with_loops, with_vars))
            r = rng.random()
            if r < 0.4:
                els = None
            elif r < 0.7:
                els = ("block", random_body(rng, rng.randrange(0, 3), depth - 1, labels, with_if_blocks, with_loops, with_vars))
            elif r < 0.85:
                els = ("goto", rng.choice(labels))
            else:
                els = ("if", cond_false(), ("block", random_body(rng, rng.randrange(0, 2), depth - 1, labels,
                                                                  with_if_blocks, with_loops, with_vars)), None)
            out.append(("if", rng.choice([cond_true(), cond_false()]), then, els))
        else:
            out.append(bump(1))
    return out


# ---------------------------------------------------------------------------
# C06: statement trees with every branch form, well-formed or not


def c06_stmts(size, depth, cache):
    """All statements with exactly `size` nodes (a goto/naked branch counts as one node)."""
    key = ("s", size, depth)
    if key in cache:
        return cache[key]
    out = []
    if size == 1:
        out += [bump(1), ("loop",), ("goto", "l"), ("label", "m")]
        if depth > 0:
            out.append(("block", []))
    if depth > 0 and size >= 2:
        for b in c06_seqs(size - 1, depth - 1, cache):
            out.append(("block", b))
        # if: 1 node for the `if` itself + then + else
        for ts in range(1, size):
            for then in c06_branches(ts, depth - 1, cache, is_else=False):
                es = size - 1 - ts
                if es == 0:
                    out.append(("if", cond_true(), then, None))
                else:
                    if then[0] == "if":
                        continue    # dangling else: the text would parse as a different tree
                    for els in c06_branches(es, depth - 1, cache, is_else=True):
                        out.append(("if", cond_true(), then, els))
    cache[key] = out
    return out


def c06_branches(size, depth, cache, is_else):
    out = []
    if size == 1:
        out += [("goto", "l"), bump(1), ("loop",)]          # goto (legal), naked assignment, naked loop
        out.append(("block", []))
    if size >= 2:
        for b in c06_seqs(size - 1, depth, cache):
            out.append(("block", b))
        for st in c06_stmts(size, depth, cache):
            if st[0] == "if":
                out.append(st)      # else-if (legal in else position, naked in then position)
    return out


def c06_seqs(k, depth, cache):
    key = ("q", k, depth)
    if key in cache:
        return cache[key]
    if k == 0:
        cache[key] = [[]]
        return cache[key]
    out = []
    for s in range(1, k + 1):
        firsts = c06_stmts(s, depth, cache)
        if not firsts:
            continue
        for f in firsts:
            for r in c06_seqs(k - s, depth, cache):
                out.append([f] + r)
    cache[key] = out
    return out


def unique_labels(body):
    """Rename every `m:` label to its own name so that labels never clash (C04 is not under test here)."""
    counter = [0]

    def fix(stmts):
        out = []
        for st in stmts:
            if st[0] == "label" and st[1] == "m":
                counter[0] += 1
                out.append(("label", "m%d" % counter[0]))
            elif st[0] == "block":
                out.append(("block", fix(st[1])))
            elif st[0] == "if":
                out.append(fix_if(st))
            else:
                out.append(st)
        return out

    def fix_if(st):
        def br(b):
            if b is None:
                return None
            if b[0] == "block":
                return ("block", fix(b[1]))
            if b[0] == "if":
                return fix_if(b)
            return b
        return ("if", st[1], br(st[2]), br(st[3]))

    return fix(body)


def noise_statements():
    arr = ("a", 2, I32)
    return [("block", [("block", [])]), ("block", []), ("if", cond_true(), ("block", []), None),
            ("if", cond_false(), ("block", [("block", [])]), ("block", [])), ("block", [("block", [("block", [])])]),
            ("if", cond_true(), ("block", [("if", cond_false(), ("block", []), None)]), None),
            ("var", "nz0", arr, ("arr", arr, [X, lit(1)]))]


def all_single_noise(body):
    """Every body obtained by inserting one noise statement at one position of the body or of a nested block."""
    import copy

    def paths(stmts, prefix, acc):
        acc.append(prefix)
        for i, st in enumerate(stmts):
            if st[0] == "block":
                paths(st[1], prefix + [i], acc)
        return acc

    for path in paths(body, [], []):
        target = body
        for i in path:
            target = target[i][1]
        for pos in range(len(target) + 1):
            for st in noise_statements():
                b = copy.deepcopy(body)
                t = b
                for i in path:
                    lst = list(t[i][1])
                    t[i] = ("block", lst)
                    t = lst
                t.insert(pos, st)
                yield b


def insert_noise(rng, body, k=1):
    """Insert k statements that jump nowhere and declare nothing the body uses (nested empty blocks, empty if / if-else,
    an array variable of a fresh name initialised from an array literal) at random places of the body, also inside nested
    blocks. The verdict on labels and on the body's own variables must not depend on them."""
    import copy
    body = copy.deepcopy(body)
    noise = [("block", [("block", [])]), ("block", []), ("if", cond_true(), ("block", []), None),
             ("if", cond_false(), ("block", [("block", [])]), ("block", [])), ("block", [("block", [("block", [])])]),
             ("if", cond_true(), ("block", [("if", cond_false(), ("block", []), None)]), None)]

    # an array literal opens a scope of its own in the scoper: a variable of a fresh name initialised from one
    arr = ("a", 2, I32)
    noise.append(("var", None, arr, ("arr", arr, [X, lit(1)])))
    noise.append(("var", None, arr, ("arr", arr, [lit(2), lit(3)])))

    def lists(stmts, acc):
        acc.append(stmts)
        for i, st in enumerate(stmts):
            if st[0] == "block":
                lst = list(st[1])
                stmts[i] = ("block", lst)
                lists(lst, acc)
        return acc

    for _n in range(k):
        all_lists = lists(body, [])
        target = rng.choice(all_lists)
        st = rng.choice(noise)
        if st[0] == "var":
            st = ("var", "nz%d" % _n, st[2], st[3])      # a name of its own for every inserted declaration
        target.insert(rng.randrange(len(target) + 1), st)
    return body
