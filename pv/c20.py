"""C20 - rebuilt source parses back to the same tree.

For error-free parsed modules without builtin calls (generated syntactic modules and all corpus files that parse):
r1 = rebuild(parse(lex(s))) must lex and parse without error, its tree must equal the original tree up to locations
and the spelling / type suffix of literals, and rebuild(parse(lex(r1))) must equal r1 byte for byte."""
import json

from . import common, gen_mutate, gen_syntax
from .common import HELD, VIOLATED, INCONCLUSIVE
from .gen_syntax import AlphaPoison

PROP = "C20"


def front(src, strip=True):
    return common.call({"op": "alpha_front", "src": src, "ast": True, "rebuild": True, "strip_markers": strip},
                       build="chk", timeout=60)


def drop_literal_types(x):
    """Literal suffix types do not count (the property says: up to the spelling and type suffix of literals)."""
    if isinstance(x, (list, tuple)):
        if len(x) == 3 and x[0] == "int":
            return ("int", x[1], None)
        if len(x) == 2 and x[0] == "char":
            return ("int", x[1], None)       # a char literal may be respelled as a number
        return tuple(drop_literal_types(y) for y in x)
    return x


def check_source(src, tag):
    k, r = front(src)
    replay = {"source": src}
    if k != "resp":
        return "first-generation front end: " + (r.signature() if k == "crash" else common.panic_signature(r)), str(r)[:300], replay, None
    if r["errors"] or r["has_poison"]:
        return None, {"skipped": "does not parse without error"}, replay, None
    if r["has_builtin"]:
        return None, {"skipped": "contains builtin calls"}, replay, None
    if "rebuild_error" in r:
        return "rebuild fails on an error-free module: " + r["rebuild_error"][:80], r["rebuild_error"], replay, None
    r1 = r["rebuilt"]
    replay["rebuilt"] = r1
    replay["markers"] = r.get("rebuilt_raw") != r1
    if r["re_lex_errors"] or r["re_errors"] or r["re_has_poison"]:
        codes = sorted(set(e["code"] for e in r["re_errors"]))
        return "rebuilt text does not parse: %s" % (codes or ("lexical errors" if r["re_lex_errors"] else "poison")), \
               {"errors": r["re_errors"][:3], "lex_errors": r["re_lex_errors"]}, replay, r
    try:
        a = drop_literal_types(gen_syntax.alpha_to_nform(r["ast"]))
        b = drop_literal_types(gen_syntax.alpha_to_nform(r["re_ast"]))
    except AlphaPoison:
        return None, {"skipped": "poison"}, replay, None
    diff = gen_syntax.first_difference(a, b)
    if diff:
        from .c16 import classify
        return "rebuilt text parses to a different tree: " + classify(diff), diff, replay, r
    if "rebuild2_error" in r:
        return "second rebuild fails", r["rebuild2_error"], replay, r
    if r["rebuilt2"] != r1:
        return "second rebuild is not byte-identical", first_text_diff(r1, r["rebuilt2"]), replay, r
    return None, {"declarations": len(a), "bytes": len(r1)}, replay, r


def first_text_diff(a, b):
    for i, (x, y) in enumerate(zip(a.split("\n"), b.split("\n"))):
        if x != y:
            return "line %d: %r vs %r" % (i + 1, x[:80], y[:80])
    return "lengths %d vs %d" % (len(a), len(b))


def strip_builtins(decls):
    """G2 modules for this property carry no builtin calls."""
    def fix(x):
        if isinstance(x, tuple):
            if x and x[0] in ("fcall", "call") and len(x) == 4 and x[2] is True:
                return (x[0], "plain_" + x[1], False, fix(x[3]))
            return tuple(fix(y) for y in x)
        if isinstance(x, list):
            return [fix(y) for y in x]
        return x
    return [fix(d) for d in decls]


def run_case(case):
    kind = case[0]
    if kind == "gen":
        _, seed, i = case
        rng = common.rng_for(seed, PROP, "gen", i)
        g = gen_syntax.G2(rng, size=rng.choice([1, 2, 4, 8]), depth=rng.choice([1, 2, 3]))
        decls = strip_builtins(g.module())
        src = gen_syntax.Src(rng, wild=(i % 3 != 0)).module(decls)
        sig, detail, replay, _r = check_source(src, "generated")
        cov = {"generated_modules": 1}
        for k in g.cov:
            cov["prod:" + k.split("|")[0]] = 1
        more = []
        if replay.get("markers"):
            cov["modules_with_markers_stripped"] = 1
            more.append({"sig": "rebuilder annotates unresolved structure names with `#?` and structure declarations with `struct#Name` / `wordN#Name`",
                         "detail": "raw rebuilt text does not lex", "replay": {"source": src}})
        if sig:
            return {"verdict": VIOLATED, "sig": sig, "detail": detail, "replay": replay, "cov": cov, "more_violations": more}
        if isinstance(detail, dict) and detail.get("skipped"):
            return {"verdict": INCONCLUSIVE, "detail": "generated module " + detail["skipped"], "cov": cov}
        if more:
            return {"verdict": HELD, "cov": cov, "nt": "gen:" + common.stable_hash(sorted(g.cov)), "more_violations": more}
        return {"verdict": HELD, "cov": cov, "nt": "gen:" + common.stable_hash(sorted(g.cov)),
                "sample": {"source": src[:400], "rebuilt": replay.get("rebuilt", "")[:400]} if i % 200 == 0 else None}
    _, path, text = case
    sig, detail, replay, _r = check_source(text, "corpus")
    replay["path"] = path
    if sig:
        return {"verdict": VIOLATED, "sig": sig, "detail": detail, "replay": replay, "cov": {"corpus_files": 1}}
    if isinstance(detail, dict) and detail.get("skipped"):
        return {"verdict": None, "cov": {"corpus_skipped:" + detail["skipped"][:20]: 1}}
    return {"verdict": HELD, "cov": {"corpus_files": 1, "corpus_round_trips": 1}, "nt": "corpus:" + path}


def replay_file(path):
    with open(path) as f:
        data = json.load(f)
    common.ensure_worker("chk")
    sig, detail, _rp, _r = check_source(data["replay"]["source"], "replay")
    print(sig, str(detail)[:400])
    if sig:
        print("VIOLATION property=%s replay=%s" % (PROP, path))
        return 1
    print("replay: property holds on this input now")
    return 0


def main(tier, seed, replay=None):
    if replay:
        return replay_file(replay)
    common.ensure_worker("chk")
    run = common.Run(PROP, tier, seed)
    q = tier == "quick"
    cases = [("gen", seed, i) for i in range(3000 if q else 50000)]
    cases += [("corpus", p, t) for p, t in gen_mutate.corpus()]
    for r in common.run_sharded(run_case, cases):
        if r.get("verdict") is None and "harness_error" not in r:
            run.merge_counters(r.get("cov"))
            continue
        run.feed(r)
    run.assumptions = [
        "tree comparison drops locations and the type suffix of integer literals; literal values, names, operators, nesting, flags and types must match",
        "modules with builtin calls or parse errors are outside the property and skipped (counted)",
    ]
    prods = sorted(k[5:] for k in run.counters if k.startswith("prod:"))
    return run.finish(
        rule="generated syntactic modules (every declaration, statement, type and expression form; builtin calls replaced by plain calls) and all corpus "
             "files that parse without error and without builtins: parse, rebuild, re-parse, compare trees, rebuild again, compare bytes. "
             "distinct_nontrivial = distinct production sets + corpus files",
        coverage_extra={"productions_covered": len(prods)},
        min_evaluations=200)
