"""C06 - loop and if-branches only appear where the language allows them.

Exhaustive statement trees over {block, if / if-else / else-if with every branch form (goto, braced block,
naked statement, naked loop, naked if), goto, loop, assignment, label}; verdict, error-code set and the
number of L1800 lints are compared with a placement model written from docs/errors.md."""
import json

from . import common, gen_prog, gen_scope, interp, models
from .common import HELD, VIOLATED, INCONCLUSIVE
from .gen_scope import I32, X, lit

PROP = "C06"


def compile_src(src, want_ir=True):
    return common.call({"op": "alpha_compile", "files": [{"path": "body.pn", "src": src}],
                        "ir": want_ir, "module_ir": False}, build="chk", timeout=60)


def shape(stmts):
    out = ""
    for s in stmts:
        out += shape1(s)
    return out


def shape1(s):
    k = s[0]
    if k == "block":
        return "{" + shape(s[1]) + "}"
    if k == "if":
        o = "I("
        for br in (s[2], s[3]):
            o += "-" if br is None else shape1(br)
            o += ","
        return o + ")"
    return {"assign": "=", "loop": "O", "goto": "G", "label": "L"}.get(k, "?")


NOTE_FN = {"name": "note", "params": [("v", I32, "val")], "ret": None, "body": [], "ret_expr": None, "effectful": True, "index": 0}


_fresh = [0]


def substitute(body, how):
    """The same statement tree with every plain assignment replaced by another kind of plain statement (how = 'call': a call
    statement, 'print': a builtin call, 'var': a declaration): the placement rules speak of statements, not of assignments."""
    out = []
    for k, st in enumerate(body):
        if st[0] == "assign":
            if how == "call":
                out.append(("callstmt", ("call", None, "note", [X])))
            elif how == "print":
                out.append(("print", [X, ("str", None, b"\n")]))
            else:
                _fresh[0] += 1
                out.append(("var", "d%d" % _fresh[0], I32, X))
        elif st[0] == "block":
            out.append(("block", substitute(st[1], how)))
        elif st[0] == "if":
            def br(b):
                if b is None:
                    return None
                return substitute([b], how)[0]
            out.append(("if", st[1], br(st[2]), br(st[3])))
        else:
            out.append(st)
    return out


def check_body(body, how=None, bad_condition=False):
    body = gen_scope.unique_labels(gen_scope.renumber_bumps(body))
    full = list(body) + [("label", "l")]
    codes, nlints = models.placement_model(full)
    extra = None
    if how:
        full = substitute(full, how)
        extra = [NOTE_FN] if how == "call" else None
    if bad_condition:
        # the first `if` gets a condition with an error of its own (an undefined variable): every placement error
        # must still be reported next to E402
        done = [False]

        def spoil(stmts):
            out = []
            for st in stmts:
                if st[0] == "if" and not done[0]:
                    done[0] = True
                    st = ("if", ("==", ("read", I32, ("undefined_variable", ())), X), st[2], st[3])
                elif st[0] == "block":
                    st = ("block", spoil(st[1]))
                out.append(st)
            return out
        full = spoil(full)
        if done[0]:
            codes = set(codes) | {402}
    prog = gen_scope.program_with_main(full, extra_funcs=extra)
    src = gen_prog.to_source(prog)
    kind, r = compile_src(src, want_ir=not codes)
    replay = {"source": src, "expected_codes": sorted(codes), "expected_L1800": nlints}
    cov = {"model:" + (",".join(map(str, sorted(codes))) or "accept"): 1}
    if kind == "crash":
        return {"verdict": VIOLATED, "sig": "compiler crash: " + r.signature(), "detail": r.to_json(), "replay": replay, "cov": cov}
    if kind == "panic":
        return {"verdict": VIOLATED, "sig": common.panic_signature(r), "detail": r, "replay": replay, "cov": cov}
    if r["status"] == "anyhow":
        return {"verdict": VIOLATED, "sig": "failure without diagnostic", "detail": r, "replay": replay, "cov": cov}
    accepted = r["status"] == "ok"
    observed = set(e["code"] for e in r.get("errors", [])) if not accepted else set()
    replay["observed_codes"] = sorted(observed)
    if observed != codes or accepted != (not codes):
        if codes and accepted:
            sig = "misplaced statement accepted (model expects %s)" % sorted(codes)
        elif not codes:
            sig = "well-placed statements rejected with %s" % sorted(observed)
        else:
            sig = "wrong codes: missing %s, unexpected %s" % (sorted(codes - observed), sorted(observed - codes))
        return {"verdict": VIOLATED, "sig": sig, "detail": {"expected": sorted(codes), "observed": sorted(observed)},
                "replay": replay, "cov": cov}
    if accepted:
        l1800 = sum(1 for l in r.get("lints", []) if l["code"] == 1800)
        other = sorted(set(l["code"] for l in r.get("lints", []) if l["code"] != 1800))
        for c in other:
            cov["other_lint_%d" % c] = 1
        cov["L1800_raised"] = l1800
        replay["observed_L1800"] = l1800
        if l1800 != nlints:
            return {"verdict": VIOLATED,
                    "sig": "L1800 raised %s than the rule prescribes" % ("fewer times" if l1800 < nlints else "more often"),
                    "detail": {"expected": nlints, "observed": l1800}, "replay": replay, "cov": cov}
        try:
            _out, status, trace = interp.run_program(prog, step_limit=3000)
        except interp.Undefined:
            status = None         # endless loop: verdict only
        if status is not None:
            res = common.run_lli(r["ir"], timeout=20)
            cov["executed"] = 1
            if res["status"] != "ok" or res["code"] != status:
                replay["expected_status"] = status
                return {"verdict": VIOLATED, "sig": "accepted body behaves differently from its statements",
                        "detail": {"expected_status": status, "observed": res["code"], "lli": res["status"]},
                        "replay": replay, "cov": cov}
    return {"verdict": HELD, "cov": cov, "nt": ("acc%d:" % nlints if accepted else "rej%s:" % sorted(codes)) + shape(body)}


def run_cli_modules(case):
    """The lint must reach the user: the real binary is given programs of 1-3 files in every order; L1800 must be shown once for
    every braced branch that starts with `loop`, whichever file it stands in."""
    import itertools, os, shutil, subprocess, tempfile
    exe = common.penne_bin_path()
    linted = "pub fn %s(x: i32) -> i32\n{\n\tvar n: i32 = x;\n\tif n == 12345\n\t{\n\t\tloop;\n\t}\n\treturn: n\n}\n"
    plain = "pub fn %s(x: i32) -> i32\n{\n\tvar n: i32 = x;\n\tif n == 12345\n\t{\n\t\tn = 0;\n\t}\n\treturn: n\n}\n"
    out = []
    for nfiles in (1, 2, 3):
        for mask in range(1 << nfiles):
            names = ["m%d" % k for k in range(nfiles)]
            files = {}
            for k, nm in enumerate(names[:-1]):
                files[nm + ".pn"] = (linted if mask >> k & 1 else plain) % ("f_" + nm)
            last = names[-1]
            imports = "".join('import "%s.pn";\n' % nm for nm in names[:-1])
            body = (linted if mask >> (nfiles - 1) & 1 else plain) % "f_last"
            calls = " + ".join(["f_last(1)"] + ["f_%s(1)" % nm for nm in names[:-1]])
            files[last + ".pn"] = imports + body + "fn main() -> i32\n{\n\treturn: %s\n}\n" % calls
            want = bin(mask).count("1")
            for order in itertools.permutations(sorted(files)):
                for sub in ("emit", "run"):
                    d = tempfile.mkdtemp(prefix="pv-c06-")
                    try:
                        for fn, text in files.items():
                            with open(os.path.join(d, fn), "w") as f:
                                f.write(text)
                        env = {"PATH": "/usr/bin:/bin", "HOME": d, "LC_ALL": "C", "TERM": "dumb", "PENNE_LLI": "lli-14"}
                        args = [exe, sub, "--color=never", "--out-dir", os.path.join(d, "out")] + list(order)
                        try:
                            pr = subprocess.run(args, cwd=d, env=env, stdout=subprocess.PIPE, stderr=subprocess.STDOUT, timeout=120)
                        except subprocess.TimeoutExpired:
                            out.append({"verdict": INCONCLUSIVE, "detail": "penne did not finish within 120 s"})
                            continue
                        text = pr.stdout.decode("utf-8", "replace")
                        got = text.count("[L1800]")
                        replay = {"files": files, "order": list(order), "sub": sub, "expected_L1800": want, "observed_L1800": got,
                                  "exit": pr.returncode, "output": text[-1200:]}
                        cov = {"cli_invocations": 1, "cli_files_%d" % nfiles: 1}
                        if pr.returncode != 0:
                            out.append({"verdict": VIOLATED, "sig": "valid multi-file program not accepted by the command line tool",
                                        "detail": text[-400:], "replay": replay, "cov": cov})
                        elif got != want:
                            out.append({"verdict": VIOLATED, "sig": "command line tool shows L1800 %s than the rule prescribes (%d files)"
                                        % ("fewer times" if got < want else "more often", nfiles),
                                        "detail": {"expected": want, "observed": got, "order": list(order)}, "replay": replay, "cov": cov})
                        else:
                            out.append({"verdict": HELD, "nt": "cli:%d:%d:%s" % (nfiles, mask, sub), "cov": cov})
                    finally:
                        shutil.rmtree(d, ignore_errors=True)
    return out


def st_has(body, kind):
    for st in body:
        if st[0] == kind:
            return True
        if st[0] == "block" and st_has(st[1], kind):
            return True
        if st[0] == "if":
            for b in (st[2], st[3]):
                if b is not None and st_has([b], kind):
                    return True
    return False


def run_case(case):
    kind = case[0]
    if kind == "cli_modules":
        return run_cli_modules(case)
    if kind == "enum":
        _, size, depth, idx, n = case[:5]
        stride = case[5] if len(case) > 5 else 1
        out = []
        i = 0
        for b in gen_scope.c06_seqs(size, depth, {}):
            i += 1
            if i % n != idx:
                continue
            if stride > 1 and (i // n) % stride:
                continue
            res = check_body(b)
            res.setdefault("cov", {})["enum_size_%d" % size] = 1
            if (i // n) % 4 == 1:
                how = ("call", "print", "var")[(i // n // 4) % 3]
                if any(st_has(b, "assign") for _ in [0]):
                    res2 = check_body(b, how=how)
                    res2.setdefault("cov", {})["substituted_" + how] = 1
                    out.append(res2)
            if (i // n) % 4 == 2 and st_has(b, "if"):
                res3 = check_body(b, bad_condition=True)
                res3.setdefault("cov", {})["bad_condition_variants"] = 1
                out.append(res3)
            if i % 499 == 1 and res["verdict"] == HELD:
                res["sample"] = {"body": gen_prog.to_source(gen_scope.program_with_main(b + [("label", "l")])),
                                 "model": [sorted(models.placement_model(b)[0]), models.placement_model(b)[1]]}
            out.append(res)
        return out
    if kind == "random":
        _, seed, i = case
        rng = common.rng_for(seed, PROP, "random", i)
        cache = {}
        # larger bodies: concatenation of random small trees
        body = []
        for _ in range(rng.randrange(2, 6)):
            size = rng.randrange(1, 5)
            opts = gen_scope.c06_seqs(size, 3, cache)
            body += rng.choice(opts)
        res = check_body(body)
        res.setdefault("cov", {})["random"] = 1
        return res
    raise ValueError(kind)


def replay_file(path):
    with open(path) as f:
        data = json.load(f)
    rp = data["replay"]
    common.ensure_worker("chk")
    kind, r = compile_src(rp["source"])
    if kind != "resp":
        print("VIOLATION property=%s replay=%s" % (PROP, path))
        return 1
    observed = sorted(set(e["code"] for e in r.get("errors", [])))
    l1800 = sum(1 for l in r.get("lints", []) if l["code"] == 1800)
    print("expected", rp["expected_codes"], rp["expected_L1800"], "observed", observed, l1800)
    if observed != rp["expected_codes"] or (r["status"] == "ok" and l1800 != rp["expected_L1800"]):
        print("VIOLATION property=%s replay=%s" % (PROP, path))
        return 1
    print("replay: property holds on this input now")
    return 0


def main(tier, seed, replay=None):
    if replay:
        return replay_file(replay)
    common.ensure_worker("chk")
    run = common.Run(PROP, tier, seed)
    max_size = 5 if tier == "quick" else 6
    depth = 4
    n = common.NPROC
    cases = []
    for size in range(0, max_size + 1):
        shards = 1 if size <= 2 else n
        for idx in range(shards):
            cases.append(("enum", size, depth, idx, shards))
    if tier == "quick":
        # a 1-in-25 sample of the 6-node trees (all of them in thorough)
        for idx in range(n):
            cases.append(("enum", 6, depth, idx, n, 25))
    nrand = 1500 if tier == "quick" else 40000
    cases += [("random", seed, i) for i in range(nrand)]
    common.ensure_penne_bin()
    cases.insert(0, ("cli_modules",))
    for r in common.run_sharded(run_case, cases):
        run.feed(r)
    run.assumptions = [
        "model from docs/errors.md: E801 loop directly in a function body, E800 loop not last in its block, E840 branch that is neither goto nor braced block (else may be an if); L1800 once per braced branch block starting with loop",
        "only the number of L1800 lints is judged; other lints (e.g. unreachable code) are recorded",
        "naked `if` as then-branch is generated without an outer else (otherwise the text would parse as a different tree)",
    ]
    return run.finish(
        rule="exhaustive: all statement lists with <= %d nodes (quick: plus every 25th list with 6 nodes), depth <= %d, over {x=x+k, loop, goto l, label, block, if with then/else in "
             "{goto, block, naked assignment, naked loop, naked/else if}}; plus %d random concatenations. distinct_nontrivial = distinct "
             "(verdict, tree shape)" % (max_size, depth, nrand),
        exhaustive=True, min_evaluations=1000)
