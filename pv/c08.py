"""C08 - only vars and explicitly passed pointers can be mutated.

 1. verdict table: writes through every parameter kind, assignments to constants, whole-array / view / struct
    copies, pointer arguments without `&`;
 2. non-interference at run time: in generated programs every call is bracketed by prints of all caller-local
    scalars; a variable may change across a call only if the caller wrote `&` on it (or on a pointer that may
    point to it). This checker does not use the reference interpreter."""
import json
import re

from . import common, gen_prog, interp, c01
from .common import HELD, VIOLATED, INCONCLUSIVE

PROP = "C08"

PRE = """struct In
{
	n: i32,
	k: [2]i32,
}
word64 Wd
{
	p: i32,
	q: i32,
}
struct S
{
	m: i32,
	arr: [3]i32,
	inner: In,
	w: Wd,
}
const K: i32 = 5;
const KA: [2]i32 = [1, 2];
"""


def fn(params, body, ret=None):
    s = "fn f(%s)%s\n{\n" % (params, (" -> " + ret) if ret else "")
    s += "".join("\t" + l + "\n" for l in body)
    return s + "}\n"


def table():
    """(name, source, expectation) ; expectation = 'accept' or a set of documented codes"""
    t = []
    # writes through each parameter kind
    t.append(("write:value_param", PRE + fn("x: i32", ["x = 1;"]), {530}))
    t.append(("write:bool_value_param", PRE + fn("x: bool", ["x = true;"]), {530}))
    t.append(("write:array_view_elem", PRE + fn("x: []i32", ["x[0] = 1;"]), {530}))
    t.append(("write:array_view_elem_idx", PRE + fn("x: []i32, i: usize", ["x[i] = 1;"]), {530}))
    t.append(("write:struct_view_member", PRE + fn("s: S", ["s.m = 1;"]), {530}))
    t.append(("write:struct_view_nested", PRE + fn("s: S", ["s.inner.n = 1;"]), {530}))
    t.append(("write:struct_view_word_member", PRE + fn("s: S", ["s.w.p = 1;"]), {530}))
    t.append(("write:word_value_member", PRE + fn("w: Wd", ["w.p = 1;"]), {530}))
    t.append(("write:slice_pointer_elem", PRE + fn("x: &[]i32", ["x[0] = 1;"]), "accept"))
    t.append(("write:pointer", PRE + fn("x: &i32", ["x = 1;"]), "accept"))
    t.append(("write:pointer_to_pointer", PRE + fn("x: &&i32", ["x = 1;"]), "accept"))
    t.append(("write:pointer_to_struct_member", PRE + fn("s: &S", ["s.m = 1;"]), "accept"))
    t.append(("write:pointer_to_struct_nested", PRE + fn("s: &S", ["s.inner.n = 1;"]), "accept"))
    t.append(("write:pointer_to_word_member", PRE + fn("w: &Wd", ["w.q = 1;"]), "accept"))
    t.append(("write:local_var", PRE + fn("", ["var v: i32 = 0;", "v = 1;"]), "accept"))
    t.append(("write:local_array_elem", PRE + fn("", ["var a: [2]i32 = [1, 2];", "a[1] = 5;"]), "accept"))
    t.append(("write:local_struct_member", PRE + fn("", ["var s = In { n: 1, k: [1, 2] };", "s.n = 5;"]), "accept"))
    # constants
    t.append(("write:constant", PRE + fn("", ["K = 1;"]), {530}))
    t.append(("write:constant_array_elem", PRE + fn("", ["KA[0] = 1;"]), {530}))
    # whole copies
    t.append(("copy:array_assign", PRE + fn("", ["var a: [2]i32 = [1, 2];", "var b: [2]i32 = [3, 4];", "a = b;"]), {531}))
    t.append(("copy:array_init_from_const", PRE + fn("", ["var a = KA;"]), {531}))
    t.append(("copy:array_init_from_var", PRE + fn("", ["var a: [2]i32 = [1, 2];", "var b: [2]i32 = a;"]), {531}))
    t.append(("copy:view_init", PRE + fn("x: []i32", ["var y = x;"]), {532}))
    t.append(("copy:struct_view_init", PRE + fn("s: S", ["var c = s;"]), {533}))
    t.append(("copy:struct_assign", PRE + fn("", ["var a = In { n: 1, k: [1, 2] };", "var b = In { n: 2, k: [3, 4] };", "a = b;"]), {533}))
    t.append(("copy:word_assign", PRE + fn("", ["var a = Wd { p: 1, q: 2 };", "var b = Wd { p: 3, q: 4 };", "a = b;"]), "accept"))
    # the same copies when another call with arguments occurs earlier in the statement
    pick = "fn pick(i: usize) -> usize\n{\n\treturn: i\n}\n"
    t.append(("copy:array_assign_after_call", PRE + pick + fn("", ["var m: [2][2]i32 = [[1, 2], [3, 4]];", "var row: [2]i32 = [5, 6];",
                                                                    "m[pick(1)] = row;"]), {531}))
    t.append(("copy:struct_in_literal_after_call", PRE + pick + "struct Tagged\n{\n\ttag: usize,\n\tinner: In,\n}\n" +
              fn("", ["var s = In { n: 1, k: [1, 2] };", "var x = Tagged { tag: pick(1), inner: s };"]), {533}))
    t.append(("copy:array_in_literal", PRE + fn("", ["var row: [2]i32 = [5, 6];", "var m: [2][2]i32 = [row, [1, 2]];"]), {531}))
    # addresses of immutable things (would hand out mutable access)
    fill = "fn fill(x: &[]i32, v: i32)\n{\n\tx[0] = v;\n}\nfn poke(x: &i32)\n{\n\tx = 1;\n}\n"
    t.append(("addr:array_member_of_struct_view", PRE + fill + fn("s: S", ["fill(&s.arr, 9);"]), {530}))
    t.append(("addr:member_of_struct_view", PRE + fill + fn("s: S", ["poke(&s.m);"]), {530}))
    t.append(("addr:constant_array", PRE + fill + fn("", ["fill(&KA, 9);"]), {530}))
    t.append(("addr:constant", PRE + fill + fn("", ["poke(&K);"]), {530}))
    t.append(("addr:value_param", PRE + fill + fn("x: i32", ["poke(&x);"]), {530}))
    t.append(("addr:array_view_param", PRE + fill + fn("x: []i32", ["fill(&x, 9);"]), {530, 512, 513}))
    t.append(("addr:local_array", PRE + fill + fn("", ["var a: [2]i32 = [1, 2];", "fill(&a, 9);"]), "accept"))
    t.append(("addr:member_of_local_struct", PRE + fill + fn("", ["var s = In { n: 1, k: [1, 2] };", "poke(&s.n);", "fill(&s.k, 3);"]), "accept"))
    t.append(("addr:through_pointer_param", PRE + fill + fn("s: &S", ["poke(&s.m);", "fill(&s.arr, 3);"]), "accept"))
    # the same addresses wrapped in a bit cast (`cast &x` is still an address of x)
    t.append(("addr:cast_member_of_struct_view", PRE + fn("s: S", ["var raw: &u32 = cast &s.m;", "raw = 0;"]), {530}))
    t.append(("addr:cast_constant", PRE + fn("", ["var raw: &u32 = cast &K;", "raw = 0;"]), {530}))
    t.append(("addr:cast_value_param", PRE + fn("x: i32", ["var raw: &u32 = cast &x;", "raw = 0;"]), {530}))
    t.append(("addr:cast_local", PRE + fn("", ["var v: i32 = 1;", "var raw: &u32 = cast &v;", "raw = 0;"]), "accept"))
    t.append(("addr:cast_through_pointer_param", PRE + fn("s: &S", ["var raw: &u32 = cast &s.m;", "raw = 0;"]), "accept"))
    # pointers to endless arrays (`&[..]T`, spelled `&[]T` in extern signatures): a view must not turn into one silently
    endless = "fn efill(x: &[..]i32)\n{\n\tx[0] = 88;\n}\n"
    ext = "extern fn xfill(x: &[]i32)\n{\n\tx[0] = 77;\n}\n"
    t.append(("arg:view_to_endless_pointer", PRE + endless + fn("x: []i32", ["efill(x);"]), {512, 513, 530}))
    t.append(("arg:view_to_extern_pointer", PRE + ext + fn("x: []i32", ["xfill(x);"]), {512, 513, 530}))
    t.append(("arg:addr_of_view_to_endless_pointer", PRE + endless + fn("x: []i32", ["efill(&x);"]), {512, 513, 530}))
    t.append(("arg:array_to_endless_pointer_without_addr", PRE + endless + fn("", ["var a: [3]i32 = [1, 2, 3];", "efill(a);"]), {512, 513}))
    t.append(("arg:array_to_extern_pointer_without_addr", PRE + ext + fn("", ["var a: [3]i32 = [1, 2, 3];", "xfill(a);"]), {512, 513}))
    t.append(("arg:constant_array_to_endless_pointer", PRE + endless + fn("", ["efill(&KA);"]), {512, 513, 530}))
    t.append(("arg:struct_view_member_to_endless_pointer", PRE + endless + fn("s: S", ["efill(&s.arr);"]), {512, 513, 530}))
    # every row so far has its statements at the top level of the function body: repeat the rejecting ones inside a braced
    # block, a then-block, an else-block, an else-if arm, the else after an else-if, and a looping block
    wraps = {
        "block": (["{"], ["}"]),
        "then": (["if flag == true", "{"], ["}"]),
        "else": (["if flag == true", "{", "}", "else", "{"], ["}"]),
        "else_if": (["if flag == true", "{", "}", "else if flag == false", "{"], ["}"]),
        "else_after_else_if": (["if flag == true", "{", "}", "else if flag == false", "{", "}", "else", "{"], ["}"]),
        "nested_else_if": (["{", "if flag == true", "{", "}", "else if flag == false", "{", "if flag == true", "{"], ["}", "}", "}"]),
    }
    base_rows = [
        ("write:value_param", "x: i32", [], "x = 1;"), ("write:array_view_elem", "x: []i32", [], "x[0] = 1;"),
        ("write:struct_view_member", "s: S", [], "s.m = 1;"), ("write:constant", "", [], "K = 1;"),
        ("copy:struct_view_init", "s: S", [], "var c = s;"), ("addr:member_of_struct_view", "s: S", [], "poke(&s.m);"),
        ("write:pointer", "x: &i32", [], "x = 1;"),
    ]
    poke = "fn poke(x: &i32)\n{\n\tx = 1;\n}\n"
    for name, params, pre_lines, stmt in base_rows:
        want = "accept" if name == "write:pointer" else ({533} if name.startswith("copy") else {530})
        for wname, (before, after) in wraps.items():
            ps = (params + ", " if params else "") + "flag: bool"
            t.append(("%s:in_%s" % (name, wname), PRE + poke + fn(ps, pre_lines + before + [stmt] + after), want))
    # the address of something immutable handed to a function that writes through it, with the call standing in every position an
    # expression can stand in (the analyzer has to walk into all of them); the same with a variable of the function is accepted
    bump = "fn bump(x: &i32) -> usize\n{\n\tx = 99;\n\treturn: 0\n}\nfn take(a: usize, b: usize)\n{\n}\nstruct P\n{\n\ta: usize,\n\tb: usize,\n}\n"
    positions = {
        "target_index": ["var t: [4]i32 = [0, 0, 0, 0];", "t[%s] = 1;"], "target_index_nested": ["var t: [2][2]i32 = [[0, 0], [0, 0]];", "t[0][%s] = 1;"],
        "target_index_arith": ["var t: [4]i32 = [0, 0, 0, 0];", "t[1 + %s] = 1;"],
        "value_index": ["var t: [4]i32 = [0, 0, 0, 0];", "var r = t[%s];"], "assigned_value": ["var r: usize = 0;", "r = %s;"],
        "init": ["var r = %s;"], "binary_right": ["var r = 1usize + %s;"], "comparison": ["if %s == 0usize", "{", "}"],
        "comparison_right": ["if 0usize == %s", "{", "}"], "if_goto": ["if %s == 0usize", "\tgoto end;", "end:"],
        "argument": ["take(1, %s);"], "nested_call_argument": ["take(%s + 1, 2);"], "array_element": ["var r = [1usize, %s];"],
        "struct_member": ["var r = P { a: 1, b: %s };"], "cast_operand": ["var r = %s as u8;"], "statement": ["%s;"],
    }
    sources = {"struct_view_member": ("s: S", "bump(&s.m)"), "constant": ("", "bump(&K)"), "value_param": ("x: i32", "bump(&x)")}
    for pname, lines in positions.items():
        for sname, (params, call) in sources.items():
            t.append(("addr:%s:in_%s" % (sname, pname), PRE + bump + fn(params, [l.replace("%s", call) for l in lines]), {530}))
        t.append(("addr:variable:in_%s" % pname, PRE + bump + fn("", ["var mine: i32 = 1;"] + [l.replace("%s", "bump(&mine)") for l in lines]),
                  "accept"))
    # pointer parameter needs explicit &
    for ty, decl, arg in [("&i32", "var a: i32 = 1;", "a"), ("&[]i32", "var a: [2]i32 = [1, 2];", "a"),
                          ("&S", None, None), ("&Wd", "var a = Wd { p: 1, q: 2 };", "a"),
                          ("&u8", "var a: u8 = 1;", "a"), ("&bool", "var a: bool = true;", "a")]:
        if decl is None:
            continue
        src = PRE + "fn g(x: %s)\n{\n}\n" % ty + fn("", [decl, "g(%s);" % arg])
        t.append(("arg:missing_addr:" + ty, src, {513}))
        src = PRE + "fn g(x: %s)\n{\n}\n" % ty + fn("", [decl, "g(&%s);" % arg])
        t.append(("arg:with_addr:" + ty, src, "accept"))
    return t


def compile_src(src, want_ir=False):
    return common.call({"op": "alpha_compile", "files": [{"path": "t.pn", "src": src}],
                        "ir": want_ir, "module_ir": False}, build="chk", timeout=60)


LINE = re.compile(rb"^([<>])(\d+):(\d+)=(.*)$")


def interference(stdout, observe):
    """Scan the bracketed prints; returns a description of the first illegitimate change or None."""
    before = {}
    checked = 0
    for line in stdout.split(b"\n"):
        m = LINE.match(line)
        if not m:
            continue
        kind, cid, k, val = m.group(1), int(m.group(2)), int(m.group(3)), m.group(4)
        if kind == b"<":
            before[(cid, k)] = val
        else:
            old = before.get((cid, k))
            if old is None:
                continue
            checked += 1
            if old != val:
                info = observe.get(cid) or observe.get(str(cid))
                base = info["bases"][k]
                if base not in info["allowed"]:
                    return ("call %d to %s in %s changed %s from %s to %s although the caller wrote no & on it (allowed: %s)"
                            % (cid, info["callee"], info["caller"], base, old.decode("latin-1"), val.decode("latin-1"),
                               info["allowed"])), checked
    return None, checked


def run_case(case):
    kind = case[0]
    if kind == "table":
        _, name, src, want = case
        k, r = compile_src(src)
        replay = {"source": src, "row": name, "expected": "accept" if want == "accept" else sorted(want)}
        cov = {"table_rows": 1}
        if k == "crash":
            return {"verdict": VIOLATED, "sig": "row %s: compiler crash: %s" % (name, r.signature()), "detail": r.to_json(), "replay": replay, "cov": cov}
        if k == "panic":
            return {"verdict": VIOLATED, "sig": "row %s: %s" % (name, common.panic_signature(r)), "detail": r, "replay": replay, "cov": cov}
        observed = sorted(set(e["code"] for e in r.get("errors", []))) if r["status"] != "ok" else []
        replay["observed"] = observed if r["status"] != "ok" else "accept"
        if want == "accept":
            if r["status"] != "ok":
                return {"verdict": VIOLATED, "sig": "row %s: legitimate mutation rejected with %s" % (name, observed),
                        "detail": r.get("errors"), "replay": replay, "cov": cov}
        else:
            if r["status"] == "ok":
                return {"verdict": VIOLATED, "sig": "row %s: illegitimate mutation/copy accepted" % name, "detail": name,
                        "replay": replay, "cov": cov}
            if not (set(observed) & want):
                return {"verdict": VIOLATED, "sig": "row %s: rejected with %s instead of %s" % (name, observed, sorted(want)),
                        "detail": r.get("errors"), "replay": replay, "cov": cov}
        return {"verdict": HELD, "cov": cov, "nt": "row:" + name,
                "sample": {"row": name, "observed": replay["observed"]} if name in ("write:array_view_elem", "write:pointer") else None}
    if kind == "mon":
        # monitor 3: mutability / copy rules asserted on the resolved tree of every accepted input
        _, tag, files = case
        k, r = common.call({"op": "alpha_compile", "files": [{"path": p, "src": s} for p, s in files], "ir": False,
                            "module_ir": False, "typemon": True}, build="chk", timeout=60)
        if k != "resp" or r["status"] != "ok":
            return {"verdict": None, "cov": {"monitored_not_accepted": 1}}
        checked = r["typemon_stats"]["checked"]
        cov = {"monitored:" + tag: 1}
        for rule in ("whole_copy", "write_target", "address_of"):
            cov["tree_assertions:" + rule] = checked.get(rule, 0)
        reports = [x for x in r["typemon"] if x["rule"] in ("whole_copy", "write_target", "address_of")]
        if reports:
            rep = reports[0]
            return {"verdict": VIOLATED, "sig": "accepted program breaks mutability rule %s: %s" % (rep["rule"], rep["detail"][:90]),
                    "detail": reports[:3], "replay": {"files": files, "tag": tag}, "cov": cov}
        n = sum(cov["tree_assertions:" + rule] for rule in ("whole_copy", "write_target", "address_of"))
        return {"verdict": HELD, "cov": cov, "nt": "mon:%s:%d" % (tag, min(n, 60))}
    # non-interference
    _, seed, i = case
    prog, _cov, prng = c01.make_program(seed + 4242, i, {"call_observe": True, "max_funcs": 5, "max_stmts": 8,
                                                            "force_param_writes": True, "calls": True, "pointers": True,
                                                            "arrays": True, "structs": True, "types": gen_prog.PRIMS,
                                                            "param_kinds": ["val", "slice", "ptr", "ptr", "sliceptr", "sliceptr",
                                                                            "ptrptr", "word", "structview", "ptrstruct"]})
    observe = getattr(prog, "observe", {})
    if not observe:
        return {"verdict": None, "cov": {"no_calls": 1}}
    try:
        out, status, trace = interp.run_program(prog)
    except interp.Undefined:
        return {"verdict": None, "cov": {"discarded_ub": 1}}
    src = gen_prog.to_source(prog, gen_prog.Style(rng=prng))
    k, r = compile_src(src, want_ir=True)
    replay = {"source": src, "observe": {str(c): v for c, v in observe.items()}}
    if k != "resp" or r["status"] != "ok":
        # acceptance of these programs is C01's business
        return {"verdict": INCONCLUSIVE, "detail": "generated program not accepted"}
    res = common.run_lli(r["ir"], timeout=30)
    if res["status"] != "ok":
        return {"verdict": INCONCLUSIVE, "detail": "lli " + res["status"]}
    bad, checked = interference(res["stdout"], observe)
    cov = {"calls_bracketed": len(observe), "observations_compared": checked, "programs": 1,
           "changed_legitimately": sum(1 for _ in [0] if False)}
    if bad:
        return {"verdict": VIOLATED, "sig": "a call changed a caller variable that was not passed with &", "detail": bad,
                "replay": replay, "cov": cov}
    # self-check of the monitor against the reference run: the same scan over R1's output must be clean too
    bad_ref, _ = interference(out, observe)
    if bad_ref:
        raise common.HarnessError("non-interference monitor disagrees with its own generator: " + bad_ref)
    if res["stdout"] != out or res["code"] != status:
        return {"verdict": VIOLATED, "sig": "program with bracketed calls behaves differently from the reference", "detail":
                c01.first_diff(out, res["stdout"], status, res["code"]), "replay": replay, "cov": cov}
    changed = count_changes(res["stdout"])
    cov["observations_changed_with_amp"] = changed
    return {"verdict": HELD, "cov": cov, "nt": "ni:%s" % gen_prog.shape_hash(prog) if checked else None,
            "sample": {"source": src[:1200], "calls": len(observe), "compared": checked, "changed_legitimately": changed} if i % 50 == 0 else None}


def count_changes(stdout):
    before = {}
    n = 0
    for line in stdout.split(b"\n"):
        m = LINE.match(line)
        if not m:
            continue
        key = (m.group(2), m.group(3))
        if m.group(1) == b"<":
            before[key] = m.group(4)
        elif before.get(key) is not None and before[key] != m.group(4):
            n += 1
    return n


def replay_file(path):
    with open(path) as f:
        data = json.load(f)
    rp = data["replay"]
    common.ensure_worker("chk")
    if "row" in rp:
        want = "accept" if rp["expected"] == "accept" else set(rp["expected"])
        r = run_case(("table", rp["row"], rp["source"], want))
        bad = r["verdict"] == VIOLATED
    else:
        k, r = compile_src(rp["source"], want_ir=True)
        bad = True
        if k == "resp" and r["status"] == "ok":
            res = common.run_lli(r["ir"], timeout=30)
            b, _ = interference(res["stdout"], rp["observe"])
            bad = b is not None
            print(b)
    if bad:
        print("VIOLATION property=%s replay=%s" % (PROP, path))
        return 1
    print("replay: property holds on this input now")
    return 0


def main(tier, seed, replay=None):
    if replay:
        return replay_file(replay)
    common.ensure_worker("chk")
    run = common.Run(PROP, tier, seed)
    cases = [("table", n, s, w) for n, s, w in table()]
    cases += [("ni", seed, i) for i in range(800 if tier == "quick" else 20000)]
    from . import gen_mutate
    rng = common.rng_for(seed, PROP, "mon")
    corpus = gen_mutate.corpus()
    for p, t in corpus:
        cases.append(("mon", "corpus", [(p, t)]))
    for fs in gen_mutate.corpus_import_sets():
        cases.append(("mon", "modules", fs))
    for i in range(800 if tier == "quick" else 40000):
        p, t = rng.choice(corpus)
        op, t2 = gen_mutate.mutate(rng, t, op=rng.choice(["amp", "amp", "tok_swap", "rename_use", "tok_replace", "tok_dup", "tok_delete",
                                                           "tok_type", "paren_wrap", "insert_tok"]))
        cases.append(("mon", "mutant", [(p, t2)]))
    for i in range(150 if tier == "quick" else 3000):
        prog, _c, prng = c01.make_program(seed + 88, i)
        cases.append(("mon", "generated", [("gen.pn", gen_prog.to_source(prog))]))
    for r in common.run_sharded(run_case, cases):
        if r.get("verdict") is None and "harness_error" not in r:
            run.merge_counters(r.get("cov"))
            continue
        run.feed(r)
    run.assumptions = [
        "verdict table from docs/errors.md E530-E533, E513 and docs/features.md (views are read-only, pointers need an explicit &)",
        "non-interference: observed variables are the caller's local non-pointer scalars/elements/members; a change is legitimate iff the variable, or a "
        "pointer variable that may point to it (flow-insensitive points-to of the generated function), appears under & in that call",
    ]
    return run.finish(
        rule="table rows: one program per (parameter kind / constant / copy form / argument form); non-interference cases: generated programs whose every "
             "call is bracketed by prints of the caller's variables, executed with lli and scanned by a checker that does not use the reference "
             "interpreter. distinct_nontrivial = table rows + distinct program shapes with >= 1 compared observation",
        coverage_extra={"observations_compared": int(run.counters.get("observations_compared", 0)),
                        "calls_bracketed": int(run.counters.get("calls_bracketed", 0)),
                        "observations_changed_with_amp": int(run.counters.get("observations_changed_with_amp", 0))},
        min_evaluations=60)
