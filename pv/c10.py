"""C10 - compile-time evaluation agrees with run time.

 1. random constant expressions evaluated as `const` and as `var`: both printed values must agree with each other
    and with the reference interpreter;
 2. named constants as array lengths: |a| must equal N however the array is passed, |:[N]T| = N * |:T|;
 3. layout: |:T| must equal the measured stride between consecutive members of type T, words must fit exactly."""
import json
import re

from . import common, gen_prog, interp
from .common import HELD, VIOLATED, INCONCLUSIVE
from .gen_prog import INTS, INTS_S, INTS_U, PRIMS, SIZES, P

PROP = "C10"


def compile_src(src):
    return common.call({"op": "alpha_compile", "files": [{"path": "c10.pn", "src": src}], "ir": True, "module_ir": False},
                       build="chk", timeout=60)


UNITS = ("const U_A: i32 = 1;\nconst U_B: u8 = 2;\nconst U_C: i64 = 64;\nconst U_D: u32 = 7;\nconst U_E: i16 = -5;\n"
         "const U_F: usize = 3;\nconst U_G: u64 = 100;\nconst U_H: i8 = 9;\n\npub fn units_total() -> i64\n{\n"
         "\treturn: U_A as i64 + U_B as i64 + U_C + U_D as i64 + U_E as i64 + U_F as i64 + U_G as i64 + U_H as i64\n}\n")


def run_src(src, after_units=False):
    """-> ('ok', stdout lines) | ('rejected', codes) | ('crash', sig).  after_units: the program is the second module of the
    compilation, after an unrelated module that declares constants of its own (evaluation must not depend on that)."""
    if after_units:
        k, r = common.call({"op": "alpha_compile", "files": [{"path": "units.pn", "src": UNITS}, {"path": "c10.pn", "src": src}],
                            "ir": True, "module_ir": False}, build="chk", timeout=60)
    else:
        k, r = compile_src(src)
    if k == "crash":
        return "crash", r.signature()
    if k == "panic":
        return "crash", common.panic_signature(r)
    if r["status"] != "ok":
        return "rejected", sorted(set(e["code"] for e in r.get("errors", []))) or [r.get("error")]
    res = common.run_lli(r["ir"], timeout=30)
    if res["status"] != "ok":
        return "crash", "emitted code: lli " + res["status"]
    return "ok", res["stdout"].decode("latin-1").split("\n")


# ---- monitor 1

def const_case(seed, i):
    rng = common.rng_for(seed, PROP, "const", i)
    g = gen_prog.Gen(rng, {"casts": True})
    prog = gen_prog.Program()
    g.prog = prog
    n = rng.randrange(2, 7)
    types = [rng.choice(INTS + ["bool", "char8"] if rng.random() < 0.15 else INTS) for _ in range(n)]
    names = ["C%d" % k for k in range(n)]
    # constant k may refer to constants with larger index ("later" ones when printed in index order) and
    # printing order is shuffled, so both earlier and later references occur
    exprs = [None] * n
    for k in range(n - 1, -1, -1):
        env = gen_prog.Env(g, None)
        for j in range(k + 1, n):
            env.add(names[j], P(types[j]), "const")
        exprs[k] = g.gen_expr(env, P(types[k]), rng.randrange(1, 5), const=True)
    prog.consts = [{"name": names[k], "ty": P(types[k]), "expr": exprs[k]} for k in range(n)]
    body = []
    for k in range(n):
        body.append(("var", "v%d" % k, P(types[k]), exprs[k]))
    for k in range(n):
        body.append(("print", [("read", P(types[k]), (names[k], ())), ("str", None, b" "),
                               ("read", P(types[k]), ("v%d" % k, ())), ("str", None, b"\n")]))
    prog.funcs = [{"name": "main", "params": [], "ret": P("i32"), "body": body, "ret_expr": ("lit", P("i32"), 0),
                   "effectful": True, "index": 0}]
    order = list(range(n + 1))
    rng.shuffle(order)
    prog.decl_order = order
    return prog, types, g.cov


def run_const(case):
    _, seed, i = case
    prog, types, gcov = const_case(seed, i)
    try:
        out, _st, _tr = interp.run_program(prog)
    except interp.Undefined:
        return {"verdict": None, "cov": {"discarded_ub": 1}}
    src = gen_prog.to_source(prog, gen_prog.Style(rng=common.rng_for(seed, "style", i), paren="min", lit="varied"))
    after_units = i % 4 == 3
    st, res = run_src(src, after_units)
    replay = {"source": src, "expected": out.decode("latin-1"), "after_units_module": after_units}
    cov = {"const_programs": 1, "const_expressions": len(types), "const_programs_after_another_module": int(after_units)}
    for k in gcov:
        if k.startswith(("bin:", "cast:", "un:", "sizeof")):
            cov["cexpr:" + k] = 1
    if st == "crash":
        return {"verdict": VIOLATED, "sig": "constant expression: " + res, "detail": res, "replay": replay, "cov": cov}
    if st == "rejected":
        return {"verdict": VIOLATED, "sig": "valid constant expression rejected: %s" % res, "detail": res, "replay": replay, "cov": cov}
    exp_lines = out.decode("latin-1").split("\n")
    for k, (got, exp) in enumerate(zip(res, exp_lines)):
        if not exp:
            continue
        parts = got.split(" ")
        if len(parts) == 2 and parts[0] != parts[1]:
            return {"verdict": VIOLATED, "sig": "constant and variable disagree on the same expression (%s)" % types[k],
                    "detail": {"const": parts[0], "var": parts[1], "reference": exp}, "replay": replay, "cov": cov}
        if got != exp:
            return {"verdict": VIOLATED, "sig": "constant expression evaluates differently from the reference (%s)" % types[k],
                    "detail": {"observed": got, "reference": exp}, "replay": replay, "cov": cov}
    return {"verdict": HELD, "cov": cov, "nt": "const:" + gen_prog.shape_hash(prog),
            "sample": {"source": src[:900], "output": res[:6]} if i % 200 == 0 else None}


# ---- monitor 2

def length_exprs(k, rng):
    forms = ["%dusize" % k, "%d + 0" % k, "(%d * 2) / 2" % k, "|:u8| * %d" % k, "M - 1", "%d %% 16" % k,
             "(%du8 as usize)" % k, "|:[%d]u8|" % k, "(%du64 << 1u64) as usize / 2" % k, "M2 / 3"]
    return rng.choice(forms)


def run_length(case):
    _, seed, i = case
    rng = common.rng_for(seed, PROP, "len", i)
    k = i % 9
    t = rng.choice(INTS + ["bool", "char8"])
    e = length_exprs(k, rng)
    # NB: the size of an array type with a named length inside a constant's initialiser (N must be evaluated first)
    decls = ["const N: usize = %s;" % e, "const M: usize = %d;" % (k + 1), "const M2: usize = %d;" % (3 * k),
             "const NB: usize = |:[N]u16| + 0;"]
    rng.shuffle(decls)
    src = "\n".join(decls) + """
fn len_view(x: []T) -> usize
{
	return: |x|
}
fn len_sp(x: &[]T) -> usize
{
	return: |x|
}
fn len_view2(x: []T) -> usize
{
	return: len_view(x)
}
fn len_sp2(x: &[]T) -> usize
{
	return: len_sp(&x)
}
fn main() -> i32
{
	var a: [N]T;
	var p: &[N]T = &a;
	print!(|a|, "\\n");
	print!(len_view(a), "\\n");
	print!(len_sp(&a), "\\n");
	print!(len_view2(a), "\\n");
	print!(len_sp2(&a), "\\n");
	print!(|p|, "\\n");
	print!(|:[N]T|, "\\n");
	print!(|:T|, "\\n");
	print!(NB, "\\n");
	return: 0
}
""".replace("T", t)
    st, res = run_src(src)
    replay = {"source": src, "N": k}
    cov = {"length_programs": 1}
    if st != "ok":
        return {"verdict": VIOLATED, "sig": "named-length array program %s (N = %s)" % ("rejected: %s" % res if st == "rejected" else res,
                                                                                       "0" if k == 0 else ">0"),
                "detail": res, "replay": replay, "cov": cov}
    names = ["|a|", "view", "slice pointer", "view via second call", "slice pointer via second call", "|p| through &[N]T"]
    for name, got in zip(names, res[:6]):
        if got != str(k):
            return {"verdict": VIOLATED, "sig": "length of [N]T observed as %s differs from N" % name,
                    "detail": {"N": k, "observed": got, "expr": e}, "replay": replay, "cov": cov}
    if int(res[6]) != k * int(res[7]):
        return {"verdict": VIOLATED, "sig": "|:[N]T| != N * |:T|", "detail": res[:8], "replay": replay, "cov": cov}
    if len(res) > 8 and res[8] != str(2 * k):
        return {"verdict": VIOLATED, "sig": "|:[N]u16| in a constant's initialiser differs from 2 * N", "detail": {"N": k, "observed": res[8]},
                "replay": replay, "cov": cov}
    if int(res[7]) != SIZES[t]:
        return {"verdict": VIOLATED, "sig": "|:T| of a primitive differs from its width", "detail": {"type": t, "observed": res[7]},
                "replay": replay, "cov": cov}
    return {"verdict": HELD, "cov": cov, "nt": "len:%d:%s:%s" % (k, t, e.split(" ")[0][:6]),
            "sample": {"N": k, "expr": e, "type": t, "output": res[:8]} if i % 100 == 0 else None}


# ---- monitor 3

def random_members(rng, structs):
    out = []
    for _ in range(rng.randrange(1, 6)):
        c = rng.random()
        if c < 0.55:
            out.append(rng.choice(PRIMS))
        elif c < 0.75:
            out.append("[%d]%s" % (rng.randrange(1, 5), rng.choice(PRIMS)))
        elif structs:
            st = rng.choice(structs)
            # a structure member, an array of structures, an array of structures with a named length (NUM = 3, declared
            # somewhere among the structures) or a pointer to one
            out.append(rng.choice([st, st, "[2]" + st, "[NUM]" + st, "[NUM]" + st, "&[NUM]" + st, "[NUM]" + rng.choice(PRIMS)]))
        else:
            out.append(rng.choice(PRIMS))
    return out


def nested_named_decls(rng):
    """Structures nested through arrays with *named* lengths whose constants form chains of their own, so that the
    evaluation order of constants and structures matters: Outer { items: [COUNT]Mid }, Mid { cells: [ROWS]Inner, .. },
    Inner { payload: [PAYLOAD]u8, stamp: u64 } with PAYLOAD = WORDS * 2, WORDS = .. ; returns (declarations, type to probe)."""
    decls = []
    chain = rng.randrange(0, 3)
    names = ["PAYLOAD", "WORDS", "UNIT"][: chain + 1]
    for k, nme in enumerate(names):
        decls.append("const %s: usize = %s;\n" % (nme, "%s * 2" % names[k + 1] if k + 1 < len(names) else str(rng.randrange(1, 4))))
    decls.append("struct Inner\n{\n\tpayload: [PAYLOAD]u8,\n\tstamp: %s,\n}\n" % rng.choice(["u64", "u16", "u8", "i32"]))
    levels = rng.randrange(1, 3)
    decls.append("const COUNT: usize = %s;\n" % rng.choice(["3", "2", "ROWS + 1" if levels == 2 else "2"]))
    if levels == 2:
        decls.append("const ROWS: usize = %d;\n" % rng.randrange(1, 3))
        decls.append("struct Mid\n{\n\tflag: bool,\n\tcells: [%s]Inner,\n}\n" % rng.choice(["ROWS", "2"]))
        decls.append("struct Outer\n{\n\ttag: u8,\n\titems: [%s]Mid,\n}\n" % rng.choice(["COUNT", "COUNT", "3"]))
    else:
        decls.append("struct Outer\n{\n\ttag: u8,\n\titems: [%s]Inner,\n}\n" % rng.choice(["COUNT", "2"]))
    return decls, "Outer"


def run_layout(case):
    _, seed, i = case
    rng = common.rng_for(seed, PROP, "layout", i)
    decls = []
    names = []
    for j in range(rng.randrange(1, 4)):
        name = "S%d" % j
        mem = random_members(rng, names)
        decls.append("struct %s\n{\n%s}\n" % (name, "".join("\tf%d: %s,\n" % (q, m) for q, m in enumerate(mem))))
        names.append(name)
    # words, exactly filled and under-filled (a word occupies what its members occupy)
    for j in range(rng.randrange(0, 3)):
        bits = rng.choice([16, 32, 64, 128])
        wm = []
        used = 0
        maxal = 1
        for _ in range(rng.randrange(1, 4)):
            ty = rng.choice(["u8", "bool", "i8", "u16", "i16", "u32"])
            al = SIZES[ty]
            end = (used + al - 1) // al * al + SIZES[ty]
            total = (end + max(maxal, al) - 1) // max(maxal, al) * max(maxal, al)
            if total <= bits // 8:       # members at their alignment, the whole rounded up to the widest member
                wm.append(ty)
                used = end
                maxal = max(maxal, al)
        if not wm:
            wm = ["u8"]
        decls.append("word%d W%d\n{\n%s}\n" % (bits, j, "".join("\tf%d: %s,\n" % (q, m) for q, m in enumerate(wm))))
        names.append("W%d" % j)
    t = rng.choice(names + [rng.choice(PRIMS), "[3]" + rng.choice(PRIMS)])
    if i % 3 == 2:
        decls, t = nested_named_decls(rng)
    # the same sizes as module constants, declared anywhere among the structures (before or after what they measure)
    decls.append("struct Probe\n{\n\tm0: T,\n\tm1: T,\n\tm2: T,\n}\n".replace("T", t))
    num_decl = rng.choice(["const NUM: usize = 3;\n", "const NUM: usize = HALFNUM + 1;\nconst HALFNUM: usize = 2;\n",
                           "const NUM: usize = |:[3]u8|;\n"])
    for cdecl in ("const SZ: usize = |:T|;\n", "const SZ5: usize = |:[5]T|;\n", "const SZP: usize = |:Probe| + 0;\n", num_decl):
        decls.insert(rng.randrange(len(decls) + 1), cdecl.replace("T", t))
    # declaration order means nothing in Penne: a structure may come before what it contains
    if rng.random() < 0.6:
        rng.shuffle(decls)
    src = "".join(decls)
    src += """fn main() -> i32
{
	var pr: Probe;
	var p0: &T = &pr.m0;
	var p1: &T = &pr.m1;
	var p2: &T = &pr.m2;
	print!(&p0, "\\n");
	print!(&p1, "\\n");
	print!(&p2, "\\n");
	print!(|:T|, "\\n");
	print!(|:Probe|, "\\n");
	print!(|:[5]T|, "\\n");
	print!(SZ, " ", SZ5, " ", SZP, "\\n");
	return: 0
}
""".replace("T", t)
    st, res = run_src(src)
    replay = {"source": src}
    cov = {"layout_programs": 1}
    if st != "ok":
        return {"verdict": VIOLATED, "sig": "layout probe %s" % ("rejected: %s" % res if st == "rejected" else res),
                "detail": res, "replay": replay, "cov": cov}
    try:
        a0, a1, a2 = (int(x, 16) for x in res[:3])
        size, probe, arr5 = int(res[3]), int(res[4]), int(res[5])
    except ValueError:
        return {"verdict": INCONCLUSIVE, "detail": "unparsable addresses"}
    if len(res) > 6 and res[6].split() != [str(size), str(arr5), str(probe)]:
        return {"verdict": VIOLATED, "sig": "size-of in a module constant differs from size-of in a function",
                "detail": {"type": t, "in_function": [size, arr5, probe], "constants": res[6]}, "replay": replay, "cov": cov}
    if a1 - a0 != size or a2 - a1 != size:
        return {"verdict": VIOLATED, "sig": "|:T| differs from the storage T occupies (measured stride)",
                "detail": {"type": t, "sizeof": size, "stride": [a1 - a0, a2 - a1]}, "replay": replay, "cov": cov}
    if probe < 3 * size or arr5 != 5 * size:
        return {"verdict": VIOLATED, "sig": "container size inconsistent with member size",
                "detail": {"sizeof": size, "probe": probe, "arr5": arr5}, "replay": replay, "cov": cov}
    return {"verdict": HELD, "cov": cov, "nt": "layout:%s:%d" % (t[:2], size),
            "sample": {"type": t, "decls": "".join(decls)[:400], "sizeof": size, "stride": a1 - a0} if i % 100 == 0 else None}


def run_word(case):
    _, seed, i = case
    rng = common.rng_for(seed, PROP, "word", i)
    bits = rng.choice([8, 16, 32, 64, 128])
    declared = bits // 8
    mem = []
    total = 0
    for _ in range(rng.randrange(1, 6)):
        t = rng.choice(INTS_S + INTS_U + ["bool"])
        mem.append(t)
        total += SIZES[t]
    if rng.random() < 0.4 and total < declared:
        while total < declared:       # pad to an exact fit
            mem.append("u8")
            total += 1
    # size including padding: members aligned to min(size, 8), whole word to its largest member alignment
    off, maxal = 0, 1
    for t in mem:
        al = min(SIZES[t], 8)
        off = (off + al - 1) // al * al + SIZES[t]
        maxal = max(maxal, al)
    aligned = (off + maxal - 1) // maxal * maxal
    if total > declared:
        expect = "reject"            # larger than declared whatever the padding
    elif aligned <= declared:
        expect = "accept"
    else:
        expect = "either"            # fits only without padding: the property does not decide
    src = "word%d W\n{\n%s}\nfn main() -> i32\n{\n\tprint!(|:W|, \"\\n\");\n\treturn: 0\n}\n" % (
        bits, "".join("\tf%d: %s,\n" % (q, m) for q, m in enumerate(mem)))
    st, res = run_src(src)
    replay = {"source": src, "expect": expect, "sum": total, "aligned": aligned}
    cov = {"word_programs": 1, "word_expect_" + expect: 1}
    if st == "crash":
        return {"verdict": VIOLATED, "sig": "word declaration: " + res, "detail": res, "replay": replay, "cov": cov}
    if expect == "accept":
        if st != "ok":
            return {"verdict": VIOLATED, "sig": "word whose members fit is rejected: %s" % res, "detail": mem, "replay": replay, "cov": cov}
    if st == "ok" and int(res[0]) != declared:
        # an undersized word is accepted and occupies only its members; the property asks |:T| to equal the
        # storage occupied (checked by the layout monitor), not the declared size: recorded only
        cov["undersized_word_smaller_than_declared"] = 1
    if st == "ok" and int(res[0]) > declared:
        return {"verdict": VIOLATED, "sig": "|:W| exceeds the declared word size", "detail": res[0], "replay": replay, "cov": cov}
    if expect == "reject":
        if st == "ok":
            return {"verdict": VIOLATED, "sig": "word larger than declared is accepted", "detail": mem, "replay": replay, "cov": cov}
        if 380 not in res:
            return {"verdict": VIOLATED, "sig": "oversized word rejected with %s instead of E380" % res, "detail": mem, "replay": replay, "cov": cov}
    return {"verdict": HELD, "cov": cov, "nt": "word:%d:%s:%d" % (bits, expect, len(mem))}


def run_target_sizes(case):
    """Size-of relations that must hold for whatever target the module is compiled for (also --wasm, whose output cannot be run
    here): the folded results are read off the IR (`ret iN <value>` of one function per size)."""
    _, seed, i = case
    rng = common.rng_for(seed, PROP, "target_sizes", i)
    wasm = i % 2 == 0
    elems = ["&u8", "&&i32", "usize", "&Node", "&[]u8", "Node", "u16", "&[4]u64", rng.choice(PRIMS)]
    n = rng.randrange(1, 6)
    if i % 4 >= 2:
        # types that are never allocated may be as large as the address space: 2^20 .. 2^32-1 elements natively (the generator keeps array lengths in 32 bits), up to 2^27+2 for
        # wasm (where |:[N]T| must still fit the 32-bit usize for every T here, at most 16 bytes each)
        n = rng.choice([2 ** 20 + 1, 2 ** 24, 2 ** 27 + 2] if wasm else [2 ** 20 + 1, 2 ** 27 + 2, 2 ** 28, 2 ** 29 + 5, 2 ** 31 + 3, 2 ** 32 - 1])
    queries = {}
    for k, e in enumerate(elems):
        queries["e%d" % k] = e
        queries["a%d" % k] = "[%d]%s" % (n, e)
    src = "struct Node\n{\n\tnext: &Node,\n\tvalue: u8,\n}\n\n" + "".join(
        "pub fn size_%s() -> usize\n{\n\treturn: |:%s|\n}\n\n" % (name, ty) for name, ty in queries.items())
    k, r = common.call({"op": "alpha_compile", "files": [{"path": "sizes.pn", "src": src}], "ir": True, "module_ir": False, "wasm": wasm},
                       build="chk", timeout=60)
    replay = {"source": src, "wasm": wasm}
    cov = {"target_size_programs": 1, "target_size_programs_wasm" if wasm else "target_size_programs_native": 1}
    if k != "resp" or r["status"] != "ok":
        return {"verdict": VIOLATED, "sig": "size-of program not compiled (%s)" % ("wasm" if wasm else "native"), "detail": str(r)[:300],
                "replay": replay, "cov": cov}
    got = {}
    for m in re.finditer(r"define [^@]*@size_(\w+)\(\)[^{]*\{(.*?)\n\}", r["ir"], re.S):
        rm = re.search(r"ret i(\d+) (-?\d+)", m.group(2))
        if rm:
            got[m.group(1)] = int(rm.group(2)) % (1 << int(rm.group(1)))      # the IR prints constants as signed numbers
    if len(got) != len(queries):
        return {"verdict": INCONCLUSIVE, "detail": "size-of results not folded to constants in the IR", "cov": cov}
    word = got["e2"]        # usize
    for kk, e in enumerate(elems):
        if got["a%d" % kk] != n * got["e%d" % kk]:
            return {"verdict": VIOLATED, "sig": "|:[N]T| != N * |:T| (%s)" % ("wasm" if wasm else "native"),
                    "detail": {"T": e, "N": n, "sizeof_T": got["e%d" % kk], "sizeof_array": got["a%d" % kk]}, "replay": replay, "cov": cov}
        if e.startswith("&") and not e.startswith("&[]") and got["e%d" % kk] != word:
            return {"verdict": VIOLATED, "sig": "size of a pointer differs from the size of usize (%s)" % ("wasm" if wasm else "native"),
                    "detail": {"T": e, "sizeof_T": got["e%d" % kk], "sizeof_usize": word}, "replay": replay, "cov": cov}
    if got["e5"] < got["e3"] + 1:
        return {"verdict": VIOLATED, "sig": "a structure is smaller than its members (%s)" % ("wasm" if wasm else "native"),
                "detail": {"Node": got["e5"], "pointer": got["e3"]}, "replay": replay, "cov": cov}
    return {"verdict": HELD, "cov": cov, "nt": "target_sizes:%s:%d:%d" % ("wasm" if wasm else "native", n.bit_length(), word)}


def run_case(case):
    return {"const": run_const, "len": run_length, "layout": run_layout, "word": run_word, "target_sizes": run_target_sizes}[case[0]](case)


def replay_file(path):
    with open(path) as f:
        data = json.load(f)
    common.ensure_worker("chk")
    st, res = run_src(data["replay"]["source"])
    print(st, res if st != "ok" else res[:12])
    print("(re-run ./check C10 to judge)")
    return 0


def main(tier, seed, replay=None):
    if replay:
        return replay_file(replay)
    common.ensure_worker("chk")
    run = common.Run(PROP, tier, seed)
    q = tier == "quick"
    cases = [("const", seed, i) for i in range(1000 if q else 20000)]
    cases += [("len", seed, i) for i in range(270 if q else 4500)]
    cases += [("layout", seed, i) for i in range(300 if q else 6000)]
    cases += [("word", seed, i) for i in range(300 if q else 3000)]
    cases += [("target_sizes", seed, i) for i in range(80 if q else 800)]
    for r in common.run_sharded(run_case, cases):
        if r.get("verdict") is None and "harness_error" not in r:
            run.merge_counters(r.get("cov"))
            continue
        run.feed(r)
    run.assumptions = [
        "constant expressions are free of undefined behaviour according to the reference interpreter (others are discarded)",
        "'storage actually occupied' is measured: the address stride between consecutive members of type T of a probe structure",
    ]
    cells = sorted(k[6:] for k in run.counters if k.startswith("cexpr:"))
    return run.finish(
        rule="const cases: 2-6 mutually referring constants of random integer types with expressions of depth <= 4, each also evaluated as a "
             "local variable; length cases: N in 0..8 from 10 expression forms x element type, observed through 6 ways of passing; layout cases: "
             "random nested structs/arrays measured by member address stride; word cases: random member lists, exact fit or not. "
             "distinct_nontrivial = distinct expression shapes / (N, type, form) / (type, size) / (word size, fits, members)",
        coverage_extra={"constant_expression_cells": len(cells)},
        min_evaluations=200)
