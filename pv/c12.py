"""C12 - imports expose exactly the public interface and modules compose.

 1. split equivalence: a generated program is cut into 2-4 modules with the induced pub/import declarations and
    compiled through the multi-module path in every file order: same output as the reference interpreter;
 2. visibility: private items and items only reachable through a transitive import must not be usable from outside;
 3. histories: a module compiled after k unrelated modules (same builtins, colliding private names, same string
    literals) in the same Compiler must behave as when compiled alone, and the linked IR must be valid."""
import itertools
import json

from . import common, gen_prog, interp, c01
from .common import HELD, VIOLATED, INCONCLUSIVE

PROP = "C12"


def compile_files(files):
    return common.call({"op": "alpha_compile", "files": [{"path": p, "src": s} for p, s in files], "ir": True, "module_ir": False},
                       build="chk", timeout=60)


def outcome(files, run=True):
    k, r = compile_files(files)
    if k == "crash":
        return "crash", r.signature(), None
    if k == "panic":
        return "crash", common.panic_signature(r), None
    if r["status"] != "ok":
        return "rejected", tuple(sorted(set(e["code"] for e in r.get("errors", [])))) or (r.get("error"),), None
    if not run:
        return "ok", None, r["ir"]
    res = common.run_lli(r["ir"], timeout=30)
    return "ok", (res["stdout"], res["code"], res["status"]), r["ir"]


def run_split(case):
    _, seed, i = case
    prog, _cov, rng = c01.make_program(seed + 1212, i, {"max_funcs": 5})
    n_decl = len(prog.consts) + len(prog.structs) + len(prog.funcs)
    if n_decl < 2:
        return {"verdict": None, "cov": {"too_small": 1}}
    try:
        out, status, _tr = interp.run_program(prog)
    except interp.Undefined:
        return {"verdict": None, "cov": {"discarded_ub": 1}}
    nmod = rng.randrange(2, min(4, n_decl) + 1)
    mods, info = gen_prog.split_modules(prog, rng, nmod)
    # every second program has its import lines scattered among (and after) the other declarations
    scatter = rng if i % 2 else None
    files = [(fn, gen_prog.module_source(decls, imps, scatter=scatter)) for fn, decls, imps in mods]
    orders = list(itertools.permutations(range(len(files))))
    if len(orders) > 6 and i % 10:
        rng.shuffle(orders)
        orders = orders[:6]
    cov = {"split_programs": 1, "modules_%d" % nmod: 1, "pub_items": len(info["pub"]),
           "import_edges": sum(len(imps) for _f, _d, imps in mods)}
    for order in orders:
        fs = [files[j] for j in order]
        st, res, _ir = outcome(fs)
        cov["file_orders"] = cov.get("file_orders", 0) + 1
        replay = {"files": fs, "expected_stdout": out.decode("latin-1"), "expected_status": status, "case": [seed, i]}
        if st == "crash":
            return {"verdict": VIOLATED, "sig": "split program: " + res, "detail": res, "replay": replay, "cov": cov}
        if st == "rejected":
            return {"verdict": VIOLATED, "sig": "split program rejected with %s" % list(res), "detail": list(res), "replay": replay, "cov": cov}
        if res[0] != out or res[1] != status:
            return {"verdict": VIOLATED, "sig": "split program behaves differently from the single-file program",
                    "detail": c01.first_diff(out, res[0], status, res[1]), "replay": replay, "cov": cov}
    return {"verdict": HELD, "cov": cov, "nt": "split:%d:%d:%d" % (nmod, len(info["pub"]), cov["import_edges"]),
            "sample": {"files": [[f, s[:400]] for f, s in files], "orders": len(orders)} if i % 80 == 0 else None}


def run_visibility(case):
    _, seed, i = case
    rng = common.rng_for(seed, PROP, "vis", i)
    # three modules: a imports b, b imports c
    c_src = ("pub fn c_pub() -> i32\n{\n\treturn: 3\n}\n\npub const C_PUB: i32 = 30;\n\npub struct CPub\n{\n\tv: i32,\n}\n\n"
             "pub extern fn abs(x: i32) -> i32;\n")
    b_src = ("import \"c.pn\";\n\npub fn b_pub() -> i32\n{\n\treturn: c_pub() + b_secret() + B_SECRET + C_PUB\n}\n\n"
             "fn b_secret() -> i32\n{\n\treturn: 7\n}\n\nconst B_SECRET: i32 = 70;\n\nstruct BSecret\n{\n\tv: i32,\n}\n\n"
             "pub const B_PUB: i32 = 5;\n\npub struct BPub\n{\n\tv: i32,\n}\n")
    probes = {
        "ok_pub_function": ("\tvar x: i32 = b_pub();", None),
        "ok_pub_constant": ("\tvar x: i32 = B_PUB;", None),
        "ok_pub_structure": ("\tvar s = BPub { v: 1 };\n\tvar x: i32 = s.v;", None),
        "private_function": ("\tvar x: i32 = b_secret();", {401}),
        "private_constant": ("\tvar x: i32 = B_SECRET;", {402}),
        "private_structure": ("\tvar s = BSecret { v: 1 };\n\tvar x: i32 = s.v;", {405}),
        "private_structure_type": ("\tvar s: BSecret;\n\tvar x: i32 = 1;", {405}),
        "transitive_function": ("\tvar x: i32 = c_pub();", {401}),
        "transitive_constant": ("\tvar x: i32 = C_PUB;", {402}),
        "transitive_structure": ("\tvar s = CPub { v: 1 };\n\tvar x: i32 = s.v;", {405}),
        # a body-less public function head (the style of vendor/libc) is an item like any other
        "transitive_function_head": ("\tvar x: i32 = abs(-4);", {401}),
        # diamond: a imports b and c, b imports c; everything c exports is usable once
        "ok_diamond": ("\tvar x: i32 = b_pub() + c_pub() + C_PUB + abs(-4);", "diamond"),
    }
    name = sorted(probes)[i % len(probes)]
    body, want = probes[name]
    a_src = "import \"b.pn\";\n\nfn main() -> i32\n{\n%s\n\treturn: x\n}\n" % body
    if want == "diamond":
        a_src = "import \"c.pn\";\n" + a_src
        want = None
    files = [("a.pn", a_src), ("b.pn", b_src), ("c.pn", c_src)]
    # every probe in every file order (6) once per 6 * len(probes) cases
    order = list(list(itertools.permutations(range(3)))[(i // len(probes)) % 6])
    fs = [files[j] for j in order]
    st, res, _ir = outcome(fs)
    replay = {"files": fs, "probe": name}
    cov = {"visibility_probes": 1}
    if st == "crash":
        return {"verdict": VIOLATED, "sig": "visibility probe %s: %s" % (name, res), "detail": res, "replay": replay, "cov": cov}
    if want is None:
        if st != "ok":
            return {"verdict": VIOLATED, "sig": "public item not usable through its import (%s): %s" % (name, list(res)),
                    "detail": list(res), "replay": replay, "cov": cov}
    else:
        if st == "ok":
            return {"verdict": VIOLATED, "sig": "item that must stay invisible is usable from another module (%s)" % name,
                    "detail": name, "replay": replay, "cov": cov}
        if not (set(res) & want):
            return {"verdict": VIOLATED, "sig": "invisible item (%s) rejected with %s instead of %s" % (name, list(res), sorted(want)),
                    "detail": list(res), "replay": replay, "cov": cov}
    return {"verdict": HELD, "cov": cov, "nt": "vis:%s:%s" % (name, "".join(map(str, order)))}


UNRELATED = [
    "fn helper() -> i32\n{\n\tprint!(\"unrelated\\n\");\n\treturn: 1\n}\n\npub fn u%d_a() -> i32\n{\n\treturn: helper()\n}\n",
    "const K_1: i64 = 99;\n\nconst SECRET: u8 = 3;\n\npub fn u%d_b() -> i64\n{\n\tprint!(K_1, \"\\n\", \"same literal\", '\\n');\n\treturn: K_1\n}\n",
    "fn f_1(x: i32) -> i32\n{\n\tif x == 0\n\t{\n\t\tabort!();\n\t}\n\treturn: x\n}\n\npub fn u%d_c() -> i32\n{\n\treturn: f_1(2)\n}\n",
    "word16 Pair\n{\n\ta: u8,\n\tb: u8,\n}\n\npub fn u%d_d() -> u8\n{\n\tvar p = Pair { a: 1, b: 2 };\n\tprint!(p.a, \"\\n\");\n\treturn: p.b\n}\n",
    "fn helper() -> u64\n{\n\tvar text: []char8 = \"same literal\";\n\treturn: |text| as u64\n}\n\npub fn u%d_e() -> u64\n{\n\treturn: helper()\n}\n",
    "const V_1: usize = 4;\n\npub fn u%d_f() -> usize\n{\n\tvar arr: [V_1]u8;\n\treturn: |arr|\n}\n",
]

# private structures of the same name but different shape in two modules abort inside LLVM on the unchanged tree
# (known finding), so the colliding-structure history is a dedicated case with its own signature
COLLIDING_STRUCTS = [
    "struct Foo\n{\n\ta: i32,\n}\n\npub fn cs1() -> i32\n{\n\tvar f = Foo { a: 1 };\n\treturn: f.a\n}\n",
    "struct Foo\n{\n\tx: u8,\n\ty: u64,\n}\n\npub fn cs2() -> u64\n{\n\tvar f = Foo { x: 1, y: 2 };\n\treturn: f.y\n}\n",
]


PRIVATE_EXTERNS = [
    "extern fn scale(x: i32) -> i32\n{\n\treturn: x * 2\n}\n\npub fn pe1(x: i32) -> i32\n{\n\treturn: scale(x)\n}\n",
    "extern fn scale(x: i32) -> i32\n{\n\treturn: x * 10\n}\n\npub fn pe2(x: i32) -> i32\n{\n\treturn: scale(x) + 1\n}\n",
    "import \"e1.pn\";\nimport \"e2.pn\";\n\nfn main() -> i32\n{\n\treturn: pe1(3) + pe2(3)\n}\n",
]


def run_history(case):
    _, seed, i = case
    rng = common.rng_for(seed, PROP, "hist", i)
    if i % 25 == 23:
        # two modules with a private `extern fn` of the same name each (private items do not leave their module, whatever
        # their calling convention), used by a third: every file order
        names = ["e1.pn", "e2.pn", "m.pn"]
        order = list(itertools.permutations(range(3)))[(i // 25) % 6]
        fs = [(names[j], PRIVATE_EXTERNS[j]) for j in order]
        st, res, ir = outcome(fs)
        replay = {"files": fs}
        cov = {"history_private_externs": 1}
        if st != "ok":
            return {"verdict": VIOLATED, "sig": "two modules with a private extern function of the same name: %s" % (res if st == "crash" else list(res)),
                    "detail": str(res), "replay": replay, "cov": cov}
        if res[1] != 37:
            return {"verdict": VIOLATED, "sig": "two modules with a private extern function of the same name: wrong result",
                    "detail": {"expected_status": 37, "observed": res[1], "lli": res[2]}, "replay": replay, "cov": cov}
        return {"verdict": HELD, "cov": cov, "nt": "hist:private_externs:%s" % "".join(map(str, order))}
    if i % 25 == 24:
        fs = [("s1.pn", COLLIDING_STRUCTS[0]), ("s2.pn", COLLIDING_STRUCTS[1])]
        if rng.random() < 0.5:
            fs.reverse()
        st, res, ir = outcome(fs, run=False)
        replay = {"files": fs}
        cov = {"history_colliding_structs": 1}
        if st != "ok":
            return {"verdict": VIOLATED, "sig": "two modules with private structures of the same name: %s" % (res if st == "crash" else list(res)),
                    "detail": str(res), "replay": replay, "cov": cov}
        msg = common.llvm_judges(ir)
        if msg:
            return {"verdict": VIOLATED, "sig": "two modules with private structures of the same name: invalid linked IR", "detail": msg,
                    "replay": replay, "cov": cov}
        return {"verdict": HELD, "cov": cov, "nt": "hist:colliding_structs"}
    prog, _cov, prng = c01.make_program(seed + 3131, i, {"max_funcs": 3, "max_stmts": 6})
    try:
        out, status, _tr = interp.run_program(prog)
    except interp.Undefined:
        return {"verdict": None, "cov": {"discarded_ub": 1}}
    x_src = gen_prog.to_source(prog)
    alone = outcome([("x.pn", x_src)])
    if alone[0] != "ok" or alone[1][0] != out or alone[1][1] != status:
        return {"verdict": None, "cov": {"x_not_ok_alone": 1}}     # C01's business
    k = rng.randrange(1, 4)
    picks = [rng.randrange(len(UNRELATED)) for _ in range(k)]
    unrelated = [("u%d.pn" % j, UNRELATED[p] % j) for j, p in enumerate(picks)]
    pos = rng.randrange(k + 1) if i % 3 else k        # mostly: X last (after k unrelated modules)
    fs = unrelated[:pos] + [("x.pn", x_src)] + unrelated[pos:]
    st, res, ir = outcome(fs)
    replay = {"files": fs, "expected_stdout": out.decode("latin-1"), "expected_status": status}
    cov = {"history_cases": 1, "history_len_%d" % k: 1}
    if st == "crash":
        return {"verdict": VIOLATED, "sig": "module after unrelated modules: " + res, "detail": res, "replay": replay, "cov": cov}
    if st == "rejected":
        return {"verdict": VIOLATED, "sig": "module accepted alone is rejected after unrelated modules: %s" % list(res),
                "detail": list(res), "replay": replay, "cov": cov}
    msg = common.llvm_judges(ir)
    if msg:
        return {"verdict": VIOLATED, "sig": "linked IR invalid after unrelated modules: " + common.abstract_llvm_message(msg)[:120],
                "detail": msg, "replay": replay, "cov": cov}
    if res[0] != out or res[1] != status:
        return {"verdict": VIOLATED, "sig": "module behaves differently after unrelated modules",
                "detail": c01.first_diff(out, res[0], status, res[1]), "replay": replay, "cov": cov}
    return {"verdict": HELD, "cov": cov, "nt": "hist:%s:%d" % ("".join(map(str, sorted(set(picks)))), pos)}


def run_memcheck(case):
    """valgrind memcheck over the whole worker process (it sees inside the uninstrumented LLVM objects: handles used
    after their module was consumed by the linker) on multi-module compilations."""
    import os
    import re
    import subprocess
    import tempfile
    _, seed, i = case
    rng = common.rng_for(seed, PROP, "memcheck", i)
    if i % 2 == 0:
        prog, _cov, prng = c01.make_program(seed + 1212, i, {"max_funcs": 4, "max_stmts": 6})
        n_decl = len(prog.consts) + len(prog.structs) + len(prog.funcs)
        if n_decl < 2:
            return {"verdict": None, "cov": {"too_small": 1}}
        mods, _info = gen_prog.split_modules(prog, rng, rng.randrange(2, min(4, n_decl) + 1))
        files = [(fn, gen_prog.module_source(decls, imps)) for fn, decls, imps in mods]
        rng.shuffle(files)
    else:
        k = rng.randrange(2, 4)
        files = [("u%d.pn" % j, UNRELATED[rng.randrange(len(UNRELATED))] % j) for j in range(k)]
        files.append(("x.pn", "import \"u0.pn\";\n\nfn main() -> i32\n{\n\tprint!(\"x\\n\");\n\treturn: 0\n}\n"))
        rng.shuffle(files)
    req = {"op": "alpha_compile", "files": [{"path": p, "src": s} for p, s in files], "ir": False, "module_ir": False}
    fd, path = tempfile.mkstemp(prefix="pv-vg-", suffix=".json")
    with os.fdopen(fd, "w") as f:
        json.dump(req, f)
    try:
        p = subprocess.run(["valgrind", "--error-exitcode=9", "--quiet", "--num-callers=30", common.worker_path("rel"), "--one", path],
                           stdout=subprocess.PIPE, stderr=subprocess.PIPE, text=True, timeout=600)
    except subprocess.TimeoutExpired:
        return {"verdict": INCONCLUSIVE, "detail": "valgrind timed out"}
    except FileNotFoundError:
        raise common.HarnessError("valgrind not found")
    finally:
        os.unlink(path)
    cov = {"memcheck_runs": 1, "memcheck_modules": len(files)}
    if p.returncode == 9 or "== Invalid" in p.stderr or "uninitialised" in p.stderr:
        head = re.search(r"==\d+== ((?:Invalid|Conditional|Use of|Mismatched|Source and)[^\n]*)", p.stderr)
        frame = re.search(r"(?:at|by) 0x[0-9A-F]+: ((?:penne|pv_worker)[^\n(]*)", p.stderr)
        return {"verdict": VIOLATED, "sig": "memcheck: %s in %s" % (re.sub(r"\d+", "N", head.group(1)) if head else "error",
                                                                    frame.group(1).strip()[:80] if frame else "?"),
                "detail": p.stderr[-2500:], "replay": {"files": files}, "cov": cov}
    if p.returncode not in (0,):
        return {"verdict": None, "cov": {"memcheck_worker_exit_%d" % p.returncode: 1}}     # crashes are judged natively
    return {"verdict": HELD, "cov": cov, "nt": "memcheck:%d:%d" % (i % 2, len(files))}


def run_dirs(case):
    """Import paths are relative to the importing file: modules of the same name in several directories (one nested below the
    importer's), in every file order. The program must bind to the sibling file, see only what that file exports, and a name
    that exists only in another directory is not found (E470)."""
    import itertools
    def util(v, extra=""):
        # public functions are global symbols: the file of the other directory exports other names
        return "pub fn %s() -> i32\n{\n\treturn: %d\n}\n%s" % ("scale" if v == 3 else "zoom", v, extra)
    leak = "\npub fn offset() -> i32\n{\n\treturn: 1000\n}\n"
    main = "import \"util.pn\";\n\nfn main() -> i32\n{\n\treturn: scale() * 7\n}\n"
    uses_offset = "import \"util.pn\";\n\nfn main() -> i32\n{\n\treturn: scale() + offset()\n}\n"
    layouts = [
        ("nested_below", [("app/main.pn", main), ("app/util.pn", util(3)), ("app/geo/util.pn", util(10, leak))], ("ok", 21)),
        ("nested_two_levels", [("app/main.pn", main), ("app/util.pn", util(3)), ("app/a/b/util.pn", util(10, leak))], ("ok", 21)),
        ("sibling_dirs", [("app/main.pn", main), ("app/util.pn", util(3)), ("lib/util.pn", util(10, leak))], ("ok", 21)),
        ("above", [("app/sub/main.pn", main), ("app/sub/util.pn", util(3)), ("app/util.pn", util(10, leak))], ("ok", 21)),
        ("top_and_nested", [("main.pn", main), ("util.pn", util(3)), ("geo/util.pn", util(10, leak))], ("ok", 21)),
        ("leak_nested", [("app/main.pn", uses_offset), ("app/util.pn", util(3)), ("app/geo/util.pn", util(10, leak))], ("rejected", None)),
        ("only_nested", [("app/main.pn", main), ("app/geo/util.pn", util(10))], ("rejected", 470)),
        ("only_nested_top", [("top.pn", main), ("geo/util.pn", util(10))], ("rejected", 470)),
        ("only_sibling_dir", [("app/main.pn", main), ("lib/util.pn", util(10))], ("rejected", 470)),
        ("explicit_subdir", [("app/main.pn", main.replace("util.pn", "geo/util.pn").replace("scale()", "zoom()")), ("app/util.pn", util(3)), ("app/geo/util.pn", util(10))],
         ("ok", 70)),
    ]
    out = []
    for name, files, (want, value) in layouts:
        for order in itertools.permutations(files):
            got = outcome(list(order))
            replay = {"files": [list(f) for f in order], "layout": name, "expected": [want, value]}
            cov = {"directory_layout_orders": 1}
            if got[0] == "crash":
                out.append({"verdict": VIOLATED, "sig": "directories (%s): %s" % (name, got[1]), "detail": got[1], "replay": replay, "cov": cov})
            elif want == "ok" and (got[0] != "ok" or got[1][1] != value):
                out.append({"verdict": VIOLATED, "sig": "import binds to a file of another directory or fails (%s)" % name,
                            "detail": {"expected_exit_code": value, "observed": repr(got[:2])[:200]}, "replay": replay, "cov": cov})
            elif want == "rejected" and (got[0] != "rejected" or (value is not None and value not in got[1])):
                out.append({"verdict": VIOLATED, "sig": "import of a name that exists only in another directory is %s (%s)"
                            % ("accepted" if got[0] == "ok" else "rejected with %s" % list(got[1]), name),
                            "detail": repr(got[:2])[:200], "replay": replay, "cov": cov})
            else:
                out.append({"verdict": HELD, "nt": "dirs:%s" % name, "cov": cov})
    return out


def run_case(case):
    return {"split": run_split, "vis": run_visibility, "hist": run_history, "memcheck": run_memcheck, "dirs": run_dirs}[case[0]](case)


def replay_file(path):
    with open(path) as f:
        data = json.load(f)
    common.ensure_worker("chk")
    rp = data["replay"]
    st, res, _ir = outcome([tuple(x) for x in rp["files"]])
    print(st, repr(res)[:400])
    if "expected_stdout" in rp and st == "ok":
        ok = res[0].decode("latin-1") == rp["expected_stdout"] and res[1] == rp["expected_status"]
        if ok:
            print("replay: property holds on this input now")
            return 0
        print("VIOLATION property=%s replay=%s" % (PROP, path))
        return 1
    print("(re-run ./check C12 to judge)")
    return 0


def main(tier, seed, replay=None):
    if replay:
        return replay_file(replay)
    common.ensure_worker("chk")
    run = common.Run(PROP, tier, seed)
    q = tier == "quick"
    cases = [("split", seed, i) for i in range(400 if q else 8000)]
    cases += [("vis", seed, i) for i in range(72 if q else 720)]
    cases += [("hist", seed, i) for i in range(250 if q else 6000)]
    cases += [("memcheck", seed, i) for i in range(16 if q else 320)]
    cases.append(("dirs",))
    common.ensure_worker("rel")
    for r in common.run_sharded(run_case, cases):
        if r.get("verdict") is None and "harness_error" not in r:
            run.merge_counters(r.get("cov"))
            continue
        run.feed(r)
    run.assumptions = [
        "a module needs an import for every module holding an item it references, and for every module holding an item that the interface "
        "(signature types, structure members, constant expressions) of an imported item refers to (imports are not re-exported)",
        "file orders: all permutations (<= 24) for every 10th program, 6 random ones otherwise",
    ]
    return run.finish(
        rule="split: generated programs cut into 2-4 modules, all/6 file orders, compared with the reference interpreter; visibility: 10 probe "
             "kinds (public / private / transitively imported x function, constant, structure) in random file orders; histories: a generated "
             "module placed among 1-3 unrelated modules that share builtins, private names and string literals. distinct_nontrivial = distinct "
             "(#modules, #pub items, #import edges) / probe x order / (unrelated set, position)",
        min_evaluations=120)
