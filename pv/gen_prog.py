"""G1: generator of typed, executable Penne programs over its own AST, and printer
with layout variants.  The semantics of this AST are fixed by interp.py (R1), which
is written from README/docs and never looks at the compiler.

Types (tuples):  ('p', name) primitive | ('a', n, T) array | ('s', name) struct |
('w', name) word | ('ptr', T) pointer | ('slice', T) `[]T` | ('sliceptr', T) `&[]T`
"""
import random

INTS_S = ["i8", "i16", "i32", "i64", "i128"]
INTS_U = ["u8", "u16", "u32", "u64", "u128"]
INTS = INTS_S + INTS_U + ["usize"]
PRIMS = INTS + ["bool", "char8"]
BITS = {"i8": 8, "i16": 16, "i32": 32, "i64": 64, "i128": 128, "u8": 8, "u16": 16, "u32": 32, "u64": 64,
        "u128": 128, "usize": 64, "bool": 1, "char8": 8}
SIZES = {"i8": 1, "i16": 2, "i32": 4, "i64": 8, "i128": 16, "u8": 1, "u16": 2, "u32": 4, "u64": 8,
         "u128": 16, "usize": 8, "bool": 1, "char8": 1}
ARITH = ["+", "-", "*", "/", "%"]
BITWISE = ["&", "|", "^"]
SHIFTS = ["<<", ">>"]
CMPS = ["==", "!=", "<", ">", "<=", ">="]


def P(name):
    return ("p", name)


def is_signed(t):
    return t in INTS_S


def is_unsigned_fixed(t):
    return t in INTS_U


def int_range(t):
    b = BITS[t]
    if is_signed(t):
        return -(1 << (b - 1)), (1 << (b - 1)) - 1
    return 0, (1 << b) - 1


def base_of(ty):
    while ty[0] == "ptr":
        ty = ty[1]
    return ty


def ptr_depth(ty):
    d = 0
    while ty[0] == "ptr":
        ty = ty[1]
        d += 1
    return d


def type_src(ty):
    k = ty[0]
    if k == "p":
        return ty[1]
    if k == "a":
        return "[%s]%s" % (ty[1], type_src(ty[2]))
    if k in ("s", "w"):
        return ty[1]
    if k == "ptr":
        return "&" + type_src(ty[1])
    if k == "slice":
        return "[]" + type_src(ty[1])
    if k == "sliceptr":
        return "&[]" + type_src(ty[1])
    raise ValueError(ty)


class Program:
    def __init__(self):
        self.consts = []      # dict(name, ty, expr, value)
        self.structs = []     # dict(kind 'struct'|'word', bits, name, members [(n, ty)])
        self.funcs = []       # dict(name, params, ret, body, ret_expr, effectful)
        self.decl_order = None  # permutation for printing
        self.features = set()


# --------------------------------------------------------------------------
# generator


class Gen:
    def __init__(self, rng, opts=None):
        self.rng = rng
        self.o = {
            "max_funcs": 4, "max_stmts": 10, "max_depth": 3, "expr_depth": 3,
            "types": PRIMS, "structs": True, "arrays": True, "pointers": True, "consts": True,
            "loops": True, "gotos": True, "calls": True, "casts": True, "naked_literals": 0.35,
            "inference": 0.0, "call_observe": False, "struct_params": True,
            "avoid": {"elem_member", "member_elem_write", "ptr_to_array_param"},
        }
        if opts:
            self.o.update(opts)
        self.prog = Program()
        self.uid = 0
        self.cov = {}

    # ---- helpers
    def fresh(self, prefix):
        self.uid += 1
        return "%s_%d" % (prefix, self.uid)

    def hit(self, key):
        self.cov[key] = self.cov.get(key, 0) + 1

    def pick_prim(self, pool=None):
        return self.rng.choice(pool or self.o["types"])

    def pick_int(self):
        pool = [t for t in self.o["types"] if t in INTS]
        return self.rng.choice(pool or ["i32"])

    def boundary(self, t):
        lo, hi = int_range(t)
        r = self.rng
        c = r.random()
        if c < 0.35:
            return r.choice([0, 1, 2, 3, 5, 7, 10, 100])
        narrower = [w for w in (8, 16, 32, 64) if w < BITS[t]]
        if narrower and c < 0.43:
            # a value that would be negative in a narrower signed type (the top bit of that width set, everything above clear):
            # extending it must not look at that bit
            w = r.choice(narrower)
            return r.choice([1 << (w - 1), (1 << w) - 1, r.randrange(1 << (w - 1), 1 << w)])
        if c < 0.55:
            v = r.choice([lo, hi, lo + 1, hi - 1, -1, hi // 2, hi // 2 + 1])
        elif c < 0.75:
            k = r.randrange(0, BITS[t])
            v = (1 << k) + r.choice([-1, 0, 1])
            if is_signed(t) and r.random() < 0.4:
                v = -v
        else:
            v = r.randrange(lo, hi + 1)
        return max(lo, min(hi, v))

    def lit(self, t, value=None):
        if t == "bool":
            return ("lit", P(t), bool(self.rng.getrandbits(1)) if value is None else value)
        if t == "char8":
            return ("lit", P(t), self.rng.randrange(0, 256) if value is None else value)
        return ("lit", P(t), self.boundary(t) if value is None else value)

    # ---- program
    def gen_program(self):
        r = self.rng
        o = self.o
        if o["structs"]:
            for _ in range(r.randrange(0, 4)):
                self.gen_struct()
        if o["consts"]:
            for _ in range(r.randrange(0, 5)):
                self.gen_const()
        nf = r.randrange(0, o["max_funcs"]) if o["calls"] else 0
        for _ in range(nf):
            self.gen_function(False)
        self.gen_function(True)
        n = len(self.prog.consts) + len(self.prog.structs) + len(self.prog.funcs)
        order = list(range(n))
        if r.random() < 0.6:
            r.shuffle(order)
        self.prog.decl_order = order
        self.prog.features = set(self.cov)
        return self.prog

    def gen_struct(self):
        r = self.rng
        if r.random() < 0.5:
            # word with exact fit, naturally aligned members in decreasing size order
            bits = r.choice([8, 16, 32, 64, 128])
            remaining = bits // 8
            members = []
            words = [s for s in self.prog.structs if s["kind"] == "word"]
            while remaining > 0:
                cands = [t for t in INTS_S + INTS_U + ["bool"] if SIZES[t] <= remaining and
                         (not members or SIZES[t] <= members[-1][2])]
                wc = [w for w in words if w["bits"] // 8 <= remaining and
                      (not members or w["bits"] // 8 <= members[-1][2])]
                if wc and r.random() < 0.3:
                    w = r.choice(wc)
                    members.append((self.fresh("m"), ("w", w["name"]), w["bits"] // 8))
                    remaining -= w["bits"] // 8
                else:
                    t = r.choice(cands)
                    members.append((self.fresh("m"), P(t), SIZES[t]))
                    remaining -= SIZES[t]
            self.prog.structs.append({"kind": "word", "bits": bits, "name": self.fresh("W"),
                                      "members": [(n, t) for n, t, _ in members]})
            self.hit("decl:word%d" % bits)
        else:
            members = []
            for _ in range(r.randrange(1, 5)):
                c = r.random()
                if c < 0.6 or not self.o["arrays"]:
                    t = P(self.pick_prim())
                elif c < 0.8:
                    t = ("a", r.randrange(1, 5), P(self.pick_prim()))
                else:
                    others = self.prog.structs
                    t = (("w" if s["kind"] == "word" else "s"), s["name"]) if others and (s := r.choice(others)) else P("i32")
                members.append((self.fresh("m"), t))
            self.prog.structs.append({"kind": "struct", "bits": 0, "name": self.fresh("S"), "members": members})
            self.hit("decl:struct")

    def struct_by_name(self, name):
        for s in self.prog.structs:
            if s["name"] == name:
                return s
        raise KeyError(name)

    def gen_const(self):
        t = self.pick_prim()
        env = Env(self, None)
        for c in self.prog.consts:
            env.add(c["name"], c["ty"], "const")
        e = self.gen_expr(env, P(t), self.rng.randrange(0, 3), const=True)
        name = self.fresh("K").upper()
        self.prog.consts.append({"name": name, "ty": P(t), "expr": e})
        self.hit("decl:const:" + t)

    # ---- functions
    def gen_function(self, is_main):
        r = self.rng
        name = "main" if is_main else self.fresh("f")
        params = []
        effectful = False
        if not is_main:
            for _ in range(r.randrange(0, 4)):
                pname = self.fresh("a")
                kind = r.choice(self.o.get("param_kinds") or
                                ["val", "val", "slice", "ptr", "sliceptr", "ptrptr", "word", "structview",
                                 "ptrstruct", "ptrarr"])
                if kind == "val":
                    params.append((pname, P(self.pick_prim()), "val"))
                elif kind == "slice" and self.o["arrays"]:
                    params.append((pname, ("slice", P(self.pick_prim())), "view"))
                elif kind == "ptr" and self.o["pointers"]:
                    params.append((pname, ("ptr", P(self.pick_prim())), "ptr"))
                elif kind == "sliceptr" and self.o["pointers"] and self.o["arrays"]:
                    params.append((pname, ("sliceptr", P(self.pick_prim())), "ptr"))
                elif kind == "ptrptr" and self.o["pointers"]:
                    params.append((pname, ("ptr", ("ptr", P(self.pick_prim()))), "ptr"))
                elif kind == "ptrarr" and self.o["pointers"] and self.o["arrays"] and "ptr_to_array_param" not in self.o["avoid"]:
                    params.append((pname, ("ptr", ("a", r.randrange(1, 5), P(self.pick_prim()))), "ptr"))
                elif kind in ("word", "structview", "ptrstruct") and self.prog.structs and self.o["struct_params"]:
                    s = r.choice(self.prog.structs)
                    sty = ("w" if s["kind"] == "word" else "s", s["name"])
                    if kind == "ptrstruct" and self.o["pointers"]:
                        params.append((pname, ("ptr", sty), "ptr"))
                    elif s["kind"] == "word":
                        params.append((pname, sty, "val"))
                    else:
                        params.append((pname, sty, "view"))
                else:
                    params.append((pname, P(self.pick_prim()), "val"))
            for _n, ty, k in params:
                self.hit("param:" + param_kind_name(ty, k))
        ret = P("i32") if is_main else (P(self.pick_prim()) if r.random() < 0.8 else None)
        f = {"name": name, "params": params, "ret": ret, "body": [], "ret_expr": None, "effectful": False,
             "index": len(self.prog.funcs)}
        env = Env(self, f)
        for c in self.prog.consts:
            env.add(c["name"], c["ty"], "const")
        for pn, ty, k in params:
            env.add(pn, ty, "param_" + k)
        body = self.gen_block_body(env, self.o["max_stmts"], 0, top=True)
        if self.o.get("force_param_writes"):
            # every pointer parameter is really written through (C08: the legitimate channel must be exercised)
            for ty, ref, w in env.all_scalar_paths():
                v = env.vars.get(ref[0])
                if w and v and v["kind"] == "param_ptr" and ty[1] != "bool" and r.random() < 0.8:
                    if ty[1] in INTS:
                        e = ("bin", ty, "+", ("read", ty, ref), ("lit", ty, 1))
                    else:
                        e = self.gen_expr(env, ty, 1)
                    body.append(("assign", ref, e))
                    self.hit("stmt:forced_param_write")
        # observe state at the end
        body.extend(self.observe_all(env))
        f["body"] = body
        if ret is not None:
            env.place_label("return")
            f["ret_expr"] = self.gen_expr(env, ret, 2)
        f["effectful"] = env.effectful or any(k == "ptr" for _n, _t, k in params)
        self.prog.funcs.append(f)

    def observe_all(self, env, limit=8):
        out = []
        refs = env.scalar_refs()
        self.rng.shuffle(refs)
        for ty, ref in refs[:limit]:
            out.append(("print", [("read", ty, ref), ("str", None, b"\n")]))
            env.effectful = True
        return out

    # ---- statements
    def gen_block_body(self, env, n, depth, top=False, in_loop=None):
        r = self.rng
        out = []
        count = r.randrange(1, n + 1)
        for _ in range(count):
            self.gen_statement(env, out, depth)
        # place labels that are still pending for this block
        for lbl in env.pending_labels_here():
            env.place_label(lbl)
            out.append(("label", lbl))
        return out

    def gen_statement(self, env, out, depth):
        r = self.rng
        o = self.o
        choices = ["var", "var", "assign", "assign", "print"]
        if depth < o["max_depth"]:
            choices += ["block", "if", "if"]
            if o["loops"]:
                choices += ["loop"]
        if o["gotos"]:
            choices += ["goto", "ifgoto", "label"]
        if o["calls"] and self.prog.funcs:
            choices += ["call", "call"]
        if o["pointers"]:
            choices += ["ptrvar", "addrassign"]
        if o["arrays"]:
            choices += ["arrvar"]
        if o["structs"] and self.prog.structs:
            choices += ["structvar"]
        c = r.choice(choices)
        if c == "var":
            t = self.pick_prim()
            name = self.fresh("v")
            if r.random() < 0.1:
                out.append(("var", name, P(t), None))
                out.append(("assign", (name, ()), self.gen_expr(env, P(t), o["expr_depth"])))
                env.add(name, P(t), "local")
                self.hit("stmt:var_noinit")
            else:
                e = self.gen_expr(env, P(t), o["expr_depth"])
                explicit = True
                if o["inference"] and r.random() < o["inference"] and e[0] in ("read", "call", "cast", "len", "sizeof"):
                    explicit = False
                    self.hit("stmt:var_inferred")
                out.append(("var", name, P(t), e) if explicit else ("var", name, None, e))
                env.add(name, P(t), "local")
            self.hit("stmt:var:" + t)
        elif c == "arrvar":
            n = r.randrange(1, 6)
            et = P(self.pick_prim())
            if r.random() < 0.2:
                ty = ("a", r.randrange(1, 4), ("a", n, et))
            elif self.prog.structs and r.random() < 0.15:
                s = r.choice(self.prog.structs)
                ty = ("a", n, ("w" if s["kind"] == "word" else "s", s["name"]))
            else:
                ty = ("a", n, et)
            name = self.fresh("arr")
            out.append(("var", name, ty, self.gen_value(env, ty, 2)))
            env.add(name, ty, "local")
            self.hit("stmt:arrvar:" + ("2d" if ty[2][0] == "a" else ty[2][0]))
        elif c == "structvar":
            s = r.choice(self.prog.structs)
            ty = ("w" if s["kind"] == "word" else "s", s["name"])
            name = self.fresh("st")
            out.append(("var", name, ty, self.gen_value(env, ty, 2)))
            env.add(name, ty, "local")
            self.hit("stmt:structvar:" + s["kind"])
        elif c == "ptrvar":
            targets = env.addressable()
            if not targets:
                return self.gen_statement_simple(env, out)
            ty, ref, pty = r.choice(targets)
            name = self.fresh("p")
            out.append(("var", name, pty, ("addr", pty, ref)))
            env.add(name, pty, "local", points_to_local=True)
            env.note_points_to(name, ref[0])
            self.hit("stmt:ptrvar:d%d" % ptr_depth(pty))
        elif c == "addrassign":
            ptrs = [(n, v) for n, v in env.vars.items() if v["ty"][0] == "ptr" and v["kind"] == "local"]
            if not ptrs:
                return self.gen_statement_simple(env, out)
            pn, pv = r.choice(ptrs)
            # re-seat the variable's own pointer value:  &..&p = &..&y  (depth = depth of p)
            want = pv["ty"]
            cands = [(ty, ref, pty) for ty, ref, pty in env.addressable() if pty == want and ref[0] != pn]
            if not cands:
                return self.gen_statement_simple(env, out)
            _ty, ref, pty = r.choice(cands)
            out.append(("addrassign", ptr_depth(want), pn, ("addr", pty, ref)))
            env.note_points_to(pn, ref[0])
            self.hit("stmt:addrassign:d%d" % ptr_depth(want))
        elif c == "assign":
            targets = env.writable_refs()
            if not targets:
                return self.gen_statement_simple(env, out)
            ty, ref = r.choice(targets)
            out.append(("assign", ref, self.gen_expr(env, ty, o["expr_depth"])))
            self.hit("stmt:assign:" + ref_shape(ref, env))
        elif c == "print":
            refs = env.scalar_refs()
            if refs and r.random() < 0.7:
                ty, ref = r.choice(refs)
                e = ("read", ty, ref)
            else:
                e = self.gen_expr(env, P(self.pick_prim()), 2)
            if r.random() < 0.25:
                # a label in front of the value: string literals next to a formatted argument must come out as written, also
                # when they hold what the C formatting function underneath would read as a directive
                label = r.choice([b"v=", b"100% ", b"%d ", b"%s|", b"50%%: ", b"[", b"% ", b"x%5"])
                out.append(("print", [("str", None, label), e, ("str", None, b"\n")]))
                self.hit("stmt:print:labelled")
            else:
                out.append(("print", [e, ("str", None, b"\n")]))
            env.effectful = True
            self.hit("stmt:print:" + e[1][1])
        elif c == "block":
            inner = env.child()
            body = self.gen_block_body(inner, max(1, o["max_stmts"] // 2), depth + 1)
            out.append(("block", body))
            env.absorb(inner)
            self.hit("stmt:block")
        elif c == "if":
            out.append(self.gen_if(env, depth, 0))
        elif c == "loop":
            self.gen_loop(env, out, depth)
        elif c == "goto":
            lbl = env.goto_target(self)
            if lbl is None:
                return self.gen_statement_simple(env, out)
            out.append(("goto", lbl))
            self.hit("stmt:goto")
        elif c == "ifgoto":
            lbl = env.goto_target(self)
            if lbl is None:
                return self.gen_statement_simple(env, out)
            out.append(("if", self.gen_cmp(env), ("goto", lbl), None))
            self.hit("stmt:ifgoto")
        elif c == "label":
            pend = env.pending_labels_here()
            if pend:
                lbl = r.choice(pend)
                env.place_label(lbl)
                out.append(("label", lbl))
                self.hit("stmt:label_targeted")
            else:
                out.append(("label", self.fresh("l")))
                self.hit("stmt:label_plain")
        elif c == "call":
            self.gen_call_stmt(env, out)

    def gen_statement_simple(self, env, out):
        t = self.pick_prim()
        name = self.fresh("v")
        out.append(("var", name, P(t), self.gen_expr(env, P(t), 2)))
        env.add(name, P(t), "local")

    def gen_if(self, env, depth, chain):
        r = self.rng
        cmp_ = self.gen_cmp(env)
        if self.o["gotos"] and r.random() < 0.2:
            lbl = env.goto_target(self)
            then = ("goto", lbl) if lbl else None
        else:
            then = None
        if then is None:
            inner = env.child()
            then = ("block", self.gen_block_body(inner, max(1, self.o["max_stmts"] // 2), depth + 1))
            env.absorb(inner)
        els = None
        c = r.random()
        if c < 0.3:
            inner = env.child()
            els = ("block", self.gen_block_body(inner, max(1, self.o["max_stmts"] // 2), depth + 1))
            env.absorb(inner)
            self.hit("stmt:if_else")
        elif c < 0.45 and chain < 3:
            els = self.gen_if(env, depth, chain + 1)
            self.hit("stmt:else_if")
        elif c < 0.55 and self.o["gotos"]:
            lbl = env.goto_target(self)
            if lbl:
                els = ("goto", lbl)
                self.hit("stmt:else_goto")
        else:
            self.hit("stmt:if")
        return ("if", cmp_, then, els)

    def gen_loop(self, env, out, depth):
        r = self.rng
        it = self.pick_int()
        iname = self.fresh("i")
        lo, hi = int_range(it)
        trips = r.randrange(0, 6)
        start = r.choice([0, 1, 2]) if hi >= 10 else 0
        out.append(("var", iname, P(it), ("lit", P(it), start)))
        env.add(iname, P(it), "local", readonly=True)
        end_lbl = self.fresh("end")
        inner = env.child()
        inner.loop_exit = end_lbl
        op = r.choice(["==", ">="])
        body = [("if", (op, ("read", P(it), (iname, ())), ("lit", P(it), start + trips)), ("goto", end_lbl), None)]
        env.note_goto(end_lbl, inner)
        body += self.gen_block_body(inner, max(1, self.o["max_stmts"] // 2), depth + 1)
        body.append(("assign", (iname, ()), ("bin", P(it), "+", ("read", P(it), (iname, ())), ("lit", P(it), 1))))
        body.append(("loop",))
        out.append(("block", body))
        env.absorb(inner)
        env.place_label(end_lbl)
        out.append(("label", end_lbl))
        self.hit("stmt:loop:" + it)

    def gen_cmp(self, env):
        r = self.rng
        t = self.pick_prim()
        op = r.choice(CMPS)
        l = self.gen_expr(env, P(t), 2, want_typed=True)
        rr = self.gen_expr(env, P(t), 2)
        self.hit("cmp:%s:%s" % (t, op))
        return (op, l, rr)

    # ---- calls
    def callable_funcs(self, env, pure_only):
        out = []
        for f in self.prog.funcs:
            if env.func is not None and f["index"] >= env.func["index"]:
                continue
            if pure_only and f["effectful"]:
                continue
            out.append(f)
        return out

    def gen_call_stmt(self, env, out):
        r = self.rng
        fs = self.callable_funcs(env, False)
        if not fs:
            return self.gen_statement_simple(env, out)
        # prefer functions that take pointers: they are the interesting ones
        withptr = [f for f in fs if any(k == "ptr" for _n, _t, k in f["params"])]
        f = r.choice(withptr) if withptr and r.random() < 0.5 else r.choice(fs)
        args = self.gen_args(env, f, out)
        if args is None:
            return self.gen_statement_simple(env, out)
        call = ("call", f["ret"], f["name"], args)
        pre = []
        post = []
        if self.o["call_observe"]:
            # bracket the call with prints of every caller-local, non-pointer scalar (C08 non-interference monitor)
            snap = [(t_, ref) for t_, ref in env.scalar_refs(only_locals=True)
                    if env.vars[ref[0]]["ty"][0] != "ptr"]
            self.uid += 1
            cid = self.uid
            for k, (ty, ref) in enumerate(snap):
                pre.append(("print", [("str", None, ("<%d:%d=" % (cid, k)).encode()), ("read", ty, ref), ("str", None, b"\n")]))
                post.append(("print", [("str", None, (">%d:%d=" % (cid, k)).encode()), ("read", ty, ref), ("str", None, b"\n")]))
            allowed = set()
            for a in args:
                if a[0] == "addr":
                    allowed.add(a[2][0])
                    allowed |= env.points_to_closure(a[2][0])
            if not hasattr(self.prog, "observe"):
                self.prog.observe = {}
            self.prog.observe[cid] = {"bases": [ref[0] for _t, ref in snap], "allowed": sorted(allowed),
                                      "callee": f["name"], "caller": env.func["name"] if env.func else "?"}
            if snap:
                env.effectful = True
        out.extend(pre)
        if f["ret"] is None:
            out.append(("callstmt", call))
        else:
            name = self.fresh("r")
            out.append(("var", name, f["ret"], call))
            env.add(name, f["ret"], "local")
        out.extend(post)
        if f["effectful"]:
            env.effectful = True
        self.hit("stmt:call:" + ("effectful" if f["effectful"] else "pure"))

    def make_target(self, env, out, ty):
        """Declare a fresh local of type ty (so that its address can be passed); returns its name."""
        name = self.fresh("t")
        if ty[0] == "ptr":
            inner = self.make_target(env, out, ty[1])
            out.append(("var", name, ty, ("addr", ty, (inner, ()))))
            env.add(name, ty, "local")
            env.note_points_to(name, inner)
        else:
            out.append(("var", name, ty, self.gen_value(env, ty, 1)))
            env.add(name, ty, "local")
        self.hit("stmt:made_target:" + ty[0])
        return name

    def gen_args(self, env, f, out=None):
        """Arguments for f; None if the environment cannot provide one (and no statement list is given
        to declare a fresh target in). Each base variable is used at most once among by-reference
        arguments (no aliasing inside one call)."""
        r = self.rng
        used = set()
        args = []
        for _pn, ty, kind in f["params"]:
            if kind == "val" and ty[0] == "p":
                args.append(self.gen_expr(env, ty, 2))
                continue
            if kind == "val":  # word by value
                args.append(self.gen_value(env, ty, 1))
                continue
            if kind == "view" and ty[0] == "slice":
                cands = [(n, v) for n, v in env.vars.items() if n not in used and
                         ((v["ty"][0] == "a" and v["ty"][2] == ty[1]) or v["ty"] == ty)]
                if cands and r.random() < 0.85:
                    n, _v = r.choice(cands)
                    used.add(n)
                    args.append(("read", ty, (n, ())))
                    self.hit("arg:view:" + ("array" if _v["ty"][0] == "a" else "view"))
                else:
                    k = r.randrange(1, 4)
                    args.append(("arr", ("a", k, ty[1]), [self.gen_expr(env, ty[1], 1) for _ in range(k)]))
                    self.hit("arg:view:literal")
                continue
            if kind == "view":  # struct view
                cands = [(n, v) for n, v in env.vars.items() if n not in used and v["ty"] == ty]
                if cands and r.random() < 0.8:
                    n, _v = r.choice(cands)
                    used.add(n)
                    args.append(("read", ty, (n, ())))
                else:
                    args.append(self.gen_value(env, ty, 1))
                self.hit("arg:structview")
                continue
            # pointers
            if ty[0] == "sliceptr":
                cands = [(n, v) for n, v in env.vars.items() if n not in used and v["kind"] != "const" and
                         ((v["ty"][0] == "a" and v["ty"][2] == ty[1] and v["kind"] == "local") or v["ty"] == ty)]
                if not cands or (out is not None and r.random() < 0.25):
                    if out is None:
                        return None
                    n = self.make_target(env, out, ("a", r.randrange(1, 5), ty[1]))
                    v = env.vars[n]
                else:
                    n, v = r.choice(cands)
                used.add(n)
                args.append(("addr", ty, (n, ())))
                self.hit("arg:sliceptr:" + ("array" if v["ty"][0] == "a" else "pass_on"))
                continue
            cands = [(t_, ref, pty) for t_, ref, pty in env.addressable() if pty == ty and ref[0] not in used]
            if not cands or (out is not None and r.random() < 0.2):
                if out is None:
                    return None
                n = self.make_target(env, out, ty[1])
                cands = [(ty[1], (n, ()), ty)]
            _t, ref, pty = r.choice(cands)
            used.add(ref[0])
            args.append(("addr", pty, ref))
            self.hit("arg:ptr:d%d:%s" % (ptr_depth(ty), base_of(ty)[0]))
        return args

    # ---- expressions
    def gen_value(self, env, ty, depth):
        """An expression of a possibly aggregate type."""
        r = self.rng
        k = ty[0]
        if k == "p":
            return self.gen_expr(env, ty, depth)
        if k == "a":
            # whole arrays and structs cannot be copied (E531-E533): always a literal
            return ("arr", ty, [self.gen_value(env, ty[2], max(0, depth - 1)) for _ in range(ty[1])])
        if k in ("s", "w"):
            cands = [n for n, v in env.vars.items() if v["ty"] == ty]
            if k == "w" and cands and r.random() < 0.3:
                return ("read", ty, (r.choice(cands), ()))
            s = self.struct_by_name(ty[1])
            return ("struct", ty, ty[1], [(m, self.gen_value(env, mt, max(0, depth - 1))) for m, mt in s["members"]])
        raise ValueError(ty)

    def gen_expr(self, env, ty, depth, const=False, want_typed=False):
        """Expression of primitive type ty. want_typed: must not be a naked literal."""
        r = self.rng
        t = ty[1]
        leafs = ["lit"] if not want_typed else []
        refs = [ref for rt, ref in env.scalar_refs(const_only=const) if rt == ty]
        if refs:
            leafs += ["ref"] * 3
        if depth <= 0 or (leafs and r.random() < 0.25):
            c = r.choice(leafs) if leafs else "tlit"
            if c == "ref":
                ref = r.choice(refs)
                self.hit("expr:read:" + ref_shape(ref, env))
                return ("read", ty, ref)
            if c == "tlit":
                return ("cast_lit", ty, self.lit(t))
            return self.lit(t)
        choices = []
        if t in INTS or t == "char8":
            choices += ["arith"] * 4 if t != "char8" else []
        if t in INTS_U:
            choices += ["bitwise", "bitwise", "shift", "not"]
        if t in INTS_S:
            choices += ["neg"]
        if self.o["casts"] and t != "bool":
            choices += ["cast", "cast"]
        choices += ["paren"]
        if t == "usize" and not const:
            if self.o["arrays"] and env.array_refs():
                choices += ["len", "len"]
            choices += ["sizeof"]
        if t == "usize" and const:
            choices += ["sizeof"]
        if not const and self.o["calls"]:
            fs = [f for f in self.callable_funcs(env, True) if f["ret"] == ty]
            if fs:
                choices += ["call", "call"]
        if not choices:
            return self.gen_expr(env, ty, 0, const, want_typed)
        c = r.choice(choices)
        if c == "arith":
            op = r.choice(ARITH)
            l = self.gen_expr(env, ty, depth - 1, const, want_typed=True)
            if op in "/%":
                lo, hi = int_range(t)
                d = r.choice([1, 2, 3, 5, 7, 10, 16, hi]) if r.random() < 0.8 else max(1, abs(self.boundary(t)))
                d = min(d, hi)
                if is_signed(t) and r.random() < 0.3:
                    d = -d          # MIN / -1 is caught by the reference interpreter and the program discarded
                rr = ("lit", ty, d)
            else:
                rr = self.gen_expr(env, ty, depth - 1, const)
            self.hit("bin:%s:%s" % (t, op))
            return ("bin", ty, op, l, rr)
        if c == "bitwise":
            op = r.choice(BITWISE)
            self.hit("bin:%s:%s" % (t, op))
            return ("bin", ty, op, self.gen_expr(env, ty, depth - 1, const, want_typed=True),
                    self.gen_expr(env, ty, depth - 1, const))
        if c == "shift":
            op = r.choice(SHIFTS)
            self.hit("bin:%s:%s" % (t, op))
            return ("bin", ty, op, self.gen_expr(env, ty, depth - 1, const, want_typed=True),
                    ("lit", ty, r.randrange(0, BITS[t])))
        if c == "not":
            self.hit("un:%s:!" % t)
            return ("un", ty, "!", self.gen_expr(env, ty, depth - 1, const, want_typed=True))
        if c == "neg":
            self.hit("un:%s:-" % t)
            return ("un", ty, "-", self.gen_expr(env, ty, depth - 1, const, want_typed=True))
        if c == "cast":
            if t == "char8":
                src = "u8"
            else:
                pool = [s for s in self.o["types"] if s != t and (s in INTS or s == "bool" or (s == "char8" and t == "u8"))]
                if not pool:
                    return self.gen_expr(env, ty, 0, const, want_typed)
                src = r.choice(pool)
            self.hit("cast:%s:%s" % (src, t))
            return ("cast", ty, self.gen_expr(env, P(src), depth - 1, const, want_typed=True))
        if c == "paren":
            return ("paren", ty, self.gen_expr(env, ty, depth - 1, const, want_typed))
        if c == "len":
            ref = r.choice(env.array_refs())
            self.hit("len:" + ref_shape(ref, env))
            return ("len", ty, ref)
        if c == "sizeof":
            q = self.sizeof_type(env)
            self.hit("sizeof:" + q[0])
            return ("sizeof", ty, q)
        if c == "call":
            f = r.choice([f for f in self.callable_funcs(env, True) if f["ret"] == ty])
            args = self.gen_args(env, f)
            if args is None:
                return self.gen_expr(env, ty, 0, const, want_typed)
            self.hit("expr:call")
            return ("call", ty, f["name"], args)
        raise ValueError(c)

    def sizeof_type(self, env):
        r = self.rng
        c = r.random()
        if c < 0.5 or not self.o["arrays"]:
            return P(self.pick_prim())
        if c < 0.8:
            return ("a", r.randrange(0, 6), P(self.pick_prim()))
        if self.prog.structs:
            s = r.choice(self.prog.structs)
            return ("w" if s["kind"] == "word" else "s", s["name"])
        return P(self.pick_prim())


def param_kind_name(ty, kind):
    if ty[0] == "p":
        return "value"
    if ty[0] == "w":
        return "word_by_value"
    if ty[0] == "s":
        return "struct_view"
    if ty[0] == "slice":
        return "array_view"
    if ty[0] == "sliceptr":
        return "slice_pointer"
    if ty[0] == "ptr":
        b = ty[1]
        if b[0] == "ptr":
            return "pointer_to_pointer"
        return "pointer_to_" + {"p": "prim", "a": "array", "s": "struct", "w": "word"}[b[0]]
    return "?"


def ref_shape(ref, env):
    base, steps = ref
    v = env.lookup(base)
    s = v["kind"] if v else "?"
    if v and v["ty"][0] == "ptr":
        s += "_ptr%d" % ptr_depth(v["ty"])
    elif v and v["ty"][0] in ("slice", "sliceptr"):
        s += "_" + v["ty"][0]
    for st in steps:
        s += "." + ("m" if st[0] == "m" else "i")
    return s


class Env:
    """Variables in scope, label bookkeeping (forward gotos only, no skipped declarations)."""

    def __init__(self, gen, func, parent=None):
        self.gen = gen
        self.func = func
        self.parent = parent
        self.vars = dict(parent.vars) if parent else {}
        self.declared_here = []
        self.effectful = False
        self.pending = {}     # label -> set of names visible at every goto so far  (labels to be placed in THIS block)
        self.loop_exit = None
        self.depth = parent.depth + 1 if parent else 0

    def child(self):
        return Env(self.gen, self.func, self)

    def absorb(self, inner):
        self.effectful = self.effectful or inner.effectful

    def add(self, name, ty, kind, readonly=False, points_to_local=False):
        self.vars[name] = {"ty": ty, "kind": kind, "readonly": readonly}
        self.declared_here.append(name)

    def note_points_to(self, pname, target):
        root = self
        while root.parent is not None:
            root = root.parent
        if not hasattr(root, "may_point"):
            root.may_point = {}
        root.may_point.setdefault(pname, set()).add(target)

    def points_to_closure(self, name):
        root = self
        while root.parent is not None:
            root = root.parent
        mp = getattr(root, "may_point", {})
        seen = set()
        work = [name]
        while work:
            n = work.pop()
            for t in mp.get(n, ()):
                if t not in seen:
                    seen.add(t)
                    work.append(t)
        return seen

    def lookup(self, name):
        return self.vars.get(name)

    # labels ---------------------------------------------------------------
    def goto_target(self, gen):
        """A label in this or an enclosing block, to be placed later. Creates one if needed."""
        r = gen.rng
        chain = []
        e = self
        while e is not None:
            chain.append(e)
            e = e.parent
        # prefer existing pending labels
        cands = []
        for e in chain:
            for lbl in e.pending:
                cands.append((e, lbl))
        if cands and r.random() < 0.6:
            e, lbl = r.choice(cands)
        else:
            e = r.choice(chain[: min(len(chain), 3)])
            if e.parent is None and e.func is not None and e.func["ret"] is not None and r.random() < 0.3:
                lbl = "return"
            else:
                lbl = gen.fresh("l")
        self.note_goto(lbl, self, owner=e)
        return lbl

    def note_goto(self, lbl, from_env, owner=None):
        owner = owner or self
        visible = set(from_env.vars)
        if lbl in owner.pending:
            owner.pending[lbl] &= visible
        else:
            owner.pending[lbl] = visible

    def pending_labels_here(self):
        return [l for l in self.pending if l != "return"]

    def place_label(self, lbl):
        visible = self.pending.pop(lbl, None)
        if visible is not None:
            # variables declared after the first goto are no longer usable
            for n in list(self.vars):
                if n not in visible:
                    del self.vars[n]

    # references -------------------------------------------------------------
    def _expand(self, name, ty, out, ref_steps, writable, budget=3):
        """All scalar paths below a storage of type ty."""
        k = ty[0]
        if k == "p":
            out.append((ty, (name, tuple(ref_steps)), writable))
        elif k == "a" and budget > 0 and ty[1] > 0:
            if not ref_steps and ty[2][0] in ("s", "w") and "elem_member" in self.gen.o["avoid"]:
                return   # known finding: `a[i].m` on a local array of structures is rejected (E500)
            idx = ("lit", P("usize"), self.gen.rng.randrange(0, ty[1]))
            w = writable
            if any(st[0] == "m" for st in ref_steps) and ty[2][0] == "p" and "member_elem_write" in self.gen.o["avoid"]:
                w = False    # known finding: `s.m[i] = v` is rejected (E504)
            self._expand(name, ty[2], out, ref_steps + [("i", idx)], w, budget - 1)
        elif k in ("s", "w") and budget > 0:
            s = self.gen.struct_by_name(ty[1])
            for m, mt in s["members"]:
                self._expand(name, mt, out, ref_steps + [("m", m)], writable, budget - 1)

    def all_scalar_paths(self):
        out = []
        for n, v in self.vars.items():
            ty = v["ty"]
            kind = v["kind"]
            if ty[0] == "ptr":
                b = base_of(ty)
                self._expand(n, b, out, [], not v["readonly"])
            elif ty[0] in ("sliceptr", "slice"):
                # every array handed to a view / slice pointer has >= 1 element (generator invariant),
                # so element 0 exists; other indices are reduced modulo |x|
                if ty[1][0] == "p":
                    if self.gen.rng.random() < 0.5:
                        idx = ("lit", P("usize"), 0)
                    else:
                        idx = ("bin", P("usize"), "%", ("lit", P("usize"), self.gen.rng.randrange(0, 9)),
                               ("len", P("usize"), (n, ())))
                    out.append((ty[1], (n, (("i", idx),)), ty[0] == "sliceptr"))
            else:
                w = kind == "local" and not v["readonly"]
                self._expand(n, ty, out, [], w)
        return out

    def scalar_refs(self, const_only=False, only_locals=False):
        out = []
        for ty, ref, _w in self.all_scalar_paths():
            v = self.vars[ref[0]]
            if const_only and v["kind"] != "const":
                continue
            if only_locals and v["kind"] != "local":
                continue
            out.append((ty, ref))
        if not const_only and not only_locals:
            # guarded element reads of views / slice pointers:  x[i % |x|] needs |x| > 0, which the
            # generator cannot know statically, so these are only read inside `if |x| > k` (see gen_cmp);
            # kept simple: read x[0] only when the callee was generated with a non-empty guarantee.
            pass
        return out

    def writable_refs(self):
        return [(ty, ref) for ty, ref, w in self.all_scalar_paths() if w]

    def array_refs(self):
        out = []
        for n, v in self.vars.items():
            ty = v["ty"]
            if ty[0] in ("a", "slice", "sliceptr"):
                out.append((n, ()))
            elif ty[0] == "ptr" and base_of(ty)[0] == "a":
                out.append((n, ()))
            elif ty[0] == "s":
                s = self.gen.struct_by_name(ty[1])
                for m, mt in s["members"]:
                    if mt[0] == "a":
                        out.append((n, (("m", m),)))
        return out

    def addressable(self):
        """(base type, ref, pointer type) of everything whose address may be taken."""
        out = []
        for n, v in self.vars.items():
            ty = v["ty"]
            if v["kind"] == "const" or v["readonly"]:
                continue
            if v["kind"] == "local":
                if ty[0] in ("p", "a", "s", "w"):
                    out.append((ty, (n, ()), ("ptr", ty)))
                    if ty[0] == "s":
                        s = self.gen.struct_by_name(ty[1])
                        for m, mt in s["members"]:
                            if mt[0] == "p":
                                out.append((mt, (n, (("m", m),)), ("ptr", mt)))
                elif ty[0] == "ptr":
                    # &p (same type: passes the address held), &&p (pointer to the variable)
                    out.append((ty, (n, ()), ty))
                    if ptr_depth(ty) < 2:
                        out.append((ty, (n, ()), ("ptr", ty)))
            elif v["kind"] == "param_ptr" and ty[0] == "ptr":
                out.append((ty, (n, ()), ty))
        return out


# --------------------------------------------------------------------------
# printer with layout variants


class Style:
    def __init__(self, rng=None, paren="min", ws="plain", comments=False, crlf=False, lit="plain"):
        self.rng = rng or random.Random(0)
        self.paren = paren      # min | full | random
        self.ws = ws            # plain | wild
        self.comments = comments
        self.crlf = crlf
        self.lit = lit          # plain | varied


PREC = {"*": 2, "/": 2, "%": 2, "+": 1, "-": 1}


def escape_char(b):
    if b == 10:
        return "\\n"
    if b == 13:
        return "\\r"
    if b == 9:
        return "\\t"
    if b == 0:
        return "\\0"
    if b == 39:
        return "\\'"
    if b == 34:
        return '\\"'
    if b == 92:
        return "\\\\"
    if 32 <= b < 127:
        return chr(b)
    return "\\x%02X" % b


class Printer:
    def __init__(self, prog, style):
        self.p = prog
        self.s = style
        self.lines = []

    def lit_src(self, e, naked_ok):
        ty = e[1][1]
        v = e[2]
        if ty == "bool":
            return "true" if v else "false"
        if ty == "char8":
            return "'" + escape_char(v) + "'"
        r = self.s.rng
        if ty == "i128" and v == -(1 << 127):
            # the literal 2^127 itself is the business of C09; here the value is spelled as an expression
            return "(-170141183460469231731687303715884105727i128 - 1i128)"
        suffix = "" if naked_ok else ty
        if self.s.lit in ("hex", "bin") and v >= 0 and (naked_ok or is_unsigned_fixed(ty) or ty == "usize"):
            # forced spelling (the literal-window programs of C01)
            return ("0x%X" % v if self.s.lit == "hex" else "0b" + bin(v)[2:]) + suffix
        if self.s.lit == "varied" and v >= 0 and r.random() < 0.4:
            form = r.choice(["hex", "bin", "under"])
            if form == "hex":
                body = "0x%x" % v if r.random() < 0.5 else "0x%X" % v
            elif form == "bin" and v < (1 << 20):
                body = "0b" + bin(v)[2:]
            else:
                d = str(v)
                body = d if len(d) < 4 else d[:-3] + "_" + d[-3:]
            # bit literals (hex/bin) with a suffix denote unsigned bit patterns: a signed type takes them only without suffix
            # (typed by the context), where they denote the non-negative value they spell
            if form in ("hex", "bin") and not is_unsigned_fixed(ty) and ty != "usize" and suffix:
                body = str(v)
            return body + suffix
        if v < 0:
            return "-" + str(-v) + suffix
        return str(v) + suffix

    def ref_src(self, ref):
        base, steps = ref
        s = base
        for st in steps:
            if st[0] == "m":
                s += "." + st[1]
            else:
                s += "[" + self.expr(st[1], naked_ok=False) + "]"
        return s

    def wrap(self, s):
        return "(" + s + ")"

    def is_primary(self, e):
        if e[0] == "lit":
            return not (e[1][1] in INTS and e[2] < 0)
        if e[0] == "cast_lit":
            return self.is_primary(e[2])
        return e[0] in ("read", "call", "paren", "len", "sizeof")

    def expr(self, e, naked_ok=False, ctx=None):
        """ctx: None | ('bin', op, side) | 'unary' | 'cast' — decides minimal parentheses."""
        k = e[0]
        mode = self.s.paren
        if k == "lit":
            s = self.lit_src(e, naked_ok)
            if ctx in ("unary", "cast") and s.startswith("-"):
                s = self.wrap(s)
            return s
        if k == "cast_lit":
            s = self.lit_src(e[2], False)
            if ctx in ("unary", "cast") and s.startswith("-"):
                s = self.wrap(s)
            return s
        if k == "read":
            return self.ref_src(e[2])
        if k == "str":
            return '"' + "".join(escape_char(b) for b in e[2]) + '"'
        if k == "paren":
            return self.wrap(self.expr(e[2], naked_ok))
        if k == "len":
            return "|" + self.ref_src(e[2]) + "|"
        if k == "sizeof":
            return "|:" + type_src(e[2]) + "|"
        if k == "call":
            return e[2] + "(" + ", ".join(self.arg(a) for a in e[3]) + ")"
        if k == "addr":
            return self.arg(e)
        if k == "arr":
            return "[" + ", ".join(self.expr(x, naked_ok=False) for x in e[2]) + "]"
        if k == "struct":
            members = list(e[3])
            if self.s.ws == "wild" or self.s.rng.random() < 0.3:
                # member initialisers may be written in any order (layout, not meaning)
                self.s.rng.shuffle(members)
            return e[2] + " { " + ", ".join("%s: %s" % (m, self.expr(x, naked_ok=False)) for m, x in members) + " }"
        if k == "un":
            inner = self.expr(e[3], False, ctx="unary")
            if not self.is_primary(e[3]):
                inner = self.wrap(inner)
            s = e[2] + inner
            if ctx == "unary" or mode == "full":
                s = self.wrap(s)
            return s
        if k == "cast":
            inner = self.expr(e[2], False, ctx="cast")
            if e[2][0] in ("bin", "cast") or (e[2][0] == "lit" and inner.startswith("-")):
                inner = self.wrap(inner)
            s = inner + " as " + e[1][1]
            if ctx in ("unary", "cast") or (ctx and ctx[0] == "bin" and ctx[1] not in PREC) or mode == "full":
                s = self.wrap(s)
            return s
        if k == "bin":
            op = e[2]
            l = self.expr(e[3], False, ctx=("bin", op, "l"))
            rr = self.expr(e[4], self._naked_sibling(e[3]), ctx=("bin", op, "r"))
            if op in PREC:
                s = l + " " + op + " " + rr
            else:
                # bitwise and shift operands must be unary-level
                if e[3][0] in ("bin", "cast"):
                    l = self.wrap(l) if not l.startswith("(") or not balanced_wrap(l) else l
                if e[4][0] in ("bin", "cast"):
                    rr = self.wrap(rr) if not rr.startswith("(") or not balanced_wrap(rr) else rr
                s = l + " " + op + " " + rr
            need = False
            if ctx == "unary" or ctx == "cast":
                need = True
            elif ctx and ctx[0] == "bin":
                pop, side = ctx[1], ctx[2]
                if pop not in PREC or op not in PREC:
                    need = True
                elif PREC[op] < PREC[pop]:
                    need = True
                elif PREC[op] == PREC[pop] and side == "r":
                    need = True
            if mode == "full" and ctx is not None:
                need = True
            if mode == "random" and self.s.rng.random() < 0.3:
                need = True
            return self.wrap(s) if need else s
        raise ValueError(e)

    def _naked_sibling(self, left):
        """May the right operand be a naked literal? Only when the left one fixes the type."""
        return left[0] in ("read", "call", "cast", "len", "sizeof", "cast_lit") and self.s.rng.random() < 0.5

    def arg(self, a):
        if a[0] == "addr":
            pty, ref = a[1], a[2]
            n = self._addr_depth(pty, ref)
            return "&" * n + self.ref_src(ref)
        return self.expr(a, naked_ok=False)

    def _addr_depth(self, pty, ref):
        if pty[0] == "sliceptr":
            return 1
        return ptr_depth(pty)

    def cmp(self, c):
        op, l, r = c
        return self.expr(l, False) + " " + op + " " + self.expr(r, self._naked_sibling(l))

    # statements
    def ind(self, n):
        return "\t" * n

    def emit(self, n, text):
        self.lines.append(self.ind(n) + text)

    def stmt(self, st, n):
        k = st[0]
        if k == "var":
            _, name, ty, init = st
            s = "var " + name
            if ty is not None:
                s += ": " + type_src(ty)
            if init is not None:
                naked = ty is not None and init[0] == "lit" and self.s.rng.random() < 0.5
                s += " = " + (self.arg(init) if init[0] == "addr" else self.expr(init, naked_ok=naked))
            self.emit(n, s + ";")
        elif k == "assign":
            self.emit(n, self.ref_src(st[1]) + " = " + self.expr(st[2], naked_ok=st[2][0] == "lit" and self.s.rng.random() < 0.5) + ";")
        elif k == "addrassign":
            self.emit(n, "&" * st[1] + st[2] + " = " + self.arg(st[3]) + ";")
        elif k == "callstmt":
            self.emit(n, self.expr(st[1]) + ";")
        elif k == "print":
            self.emit(n, "print!(" + ", ".join(self.expr(x, naked_ok=False) for x in st[1]) + ");")
        elif k == "block":
            self.emit(n, "{")
            for x in st[1]:
                self.stmt(x, n + 1)
            self.emit(n, "}")
        elif k == "if":
            self._if(st, n, "if ")
        elif k == "goto":
            self.emit(n, "goto " + st[1] + ";")
        elif k == "label":
            self.emit(n, st[1] + ":")
        elif k == "loop":
            self.emit(n, "loop;")
        elif k == "observe_pre":
            pass
        else:
            raise ValueError(st)

    def _if(self, st, n, head):
        _, c, then, els = st
        self.emit(n, head + self.cmp(c))
        self._branch(then, n)
        if els is not None:
            if els[0] == "if":
                self._if(els, n, "else if ")
            else:
                self.emit(n, "else")
                self._branch(els, n)

    def _branch(self, b, n):
        if b[0] == "goto":
            self.emit(n + 1, "goto " + b[1] + ";")
        else:
            self.stmt(b, n)

    def decl_const(self, c, pub=False):
        self.emit(0, "%sconst %s: %s = %s;" % ("pub " if pub else "", c["name"], type_src(c["ty"]),
                                                self.expr(c["expr"], naked_ok=False)))

    def decl_struct(self, s, pub=False):
        kw = "struct" if s["kind"] == "struct" else "word%d" % s["bits"]
        self.emit(0, "%s%s %s" % ("pub " if pub else "", kw, s["name"]))
        self.emit(0, "{")
        for m, t in s["members"]:
            self.emit(1, "%s: %s," % (m, type_src(t)))
        self.emit(0, "}")

    def decl_func(self, f, pub=False):
        params = ", ".join("%s: %s" % (n, type_src(t)) for n, t, _k in f["params"])
        head = ("pub " if pub else "") + "fn %s(%s)" % (f["name"], params)
        if f["ret"] is not None:
            head += " -> " + type_src(f["ret"])
        self.emit(0, head)
        self.emit(0, "{")
        for st in f["body"]:
            self.stmt(st, 1)
        if f["ret_expr"] is not None:
            self.emit(1, "return: " + self.expr(f["ret_expr"], naked_ok=False))
        self.emit(0, "}")

    def declarations(self):
        p = self.p
        items = [("const", c) for c in p.consts] + [("struct", s) for s in p.structs] + [("func", f) for f in p.funcs]
        order = p.decl_order or list(range(len(items)))
        return [items[i] for i in order]

    def source(self, order=None):
        self.lines = []
        items = self.declarations()
        if order is not None:
            items = [items[i] for i in order]
        for kind, d in items:
            if kind == "const":
                self.decl_const(d)
            elif kind == "struct":
                self.decl_struct(d)
            else:
                self.decl_func(d)
            self.emit(0, "")
        return self.layout(self.lines)

    def layout(self, lines):
        s = self.s
        r = s.rng
        out = []
        for line in lines:
            if s.ws == "wild":
                stripped = line.lstrip("\t")
                depth = len(line) - len(stripped)
                indent = r.choice(["\t" * depth, "  " * depth, "", " " * r.randrange(0, 9)])
                line = indent + stripped
                if r.random() < 0.15:
                    out.append("")
                if r.random() < 0.1:
                    line = line + "   " + ("\t" if r.random() < 0.5 else "")
            if s.comments and r.random() < 0.25:
                out.append("// " + r.choice(["note", "goto considered", "x = 1; }", "\"quote", "é ü €", "/* */"]))
            if s.comments and r.random() < 0.15 and line.strip():
                line = line + " // trailing " + r.choice(["comment", "{", "\"", "loop;"])
            out.append(line)
        nl = "\r\n" if s.crlf else "\n"
        return nl.join(out) + nl


def balanced_wrap(s):
    """True if s is '(...)' whose first paren closes at the very end."""
    if not (s.startswith("(") and s.endswith(")")):
        return False
    d = 0
    for i, ch in enumerate(s):
        if ch == "(":
            d += 1
        elif ch == ")":
            d -= 1
            if d == 0 and i != len(s) - 1:
                return False
    return True


def to_source(prog, style=None, order=None):
    return Printer(prog, style or Style()).source(order)


def shape_hash(prog):
    """Hash of the AST with literal values abstracted."""
    import hashlib

    def ab(x):
        if isinstance(x, tuple):
            if x and x[0] == "lit":
                return ("lit", x[1])
            return tuple(ab(y) for y in x)
        if isinstance(x, list):
            return [ab(y) for y in x]
        if isinstance(x, dict):
            return {k: ab(v) for k, v in x.items() if k != "value"}
        return x

    data = repr((ab(prog.consts), ab(prog.structs), ab(prog.funcs)))
    return hashlib.sha256(data.encode()).hexdigest()[:16]


def flatten_names(x, out):
    if isinstance(x, str):
        out.add(x)
    elif isinstance(x, (tuple, list)):
        for y in x:
            flatten_names(y, out)
    elif isinstance(x, dict):
        for y in x.values():
            flatten_names(y, out)


def split_modules(prog, rng, nmod):
    """Partition the declarations of a program over nmod modules. Returns
    ([(filename, [(kind, decl, is_pub)], [imported filenames])], info)."""
    items = [("const", c) for c in prog.consts] + [("struct", s) for s in prog.structs] + [("func", f) for f in prog.funcs]
    names = {d["name"]: (kind, d) for kind, d in items}

    def refs(kind, d, interface_only):
        out = set()
        if kind == "const":
            flatten_names(d["expr"], out)
        elif kind == "struct":
            flatten_names(d["members"], out)
        else:
            flatten_names([t for _n, t, _k in d["params"]], out)
            flatten_names(d["ret"], out)
            if not interface_only:
                flatten_names(d["body"], out)
                flatten_names(d["ret_expr"], out)
        out.discard(d["name"])
        return out & set(names)

    where = {}
    order = [d["name"] for _k, d in items]
    for n in order:
        where[n] = rng.randrange(nmod)
    # every module non-empty if possible
    for m in range(nmod):
        if m not in where.values() and len(order) >= nmod:
            where[rng.choice([n for n in order if list(where.values()).count(where[n]) > 1])] = m
    needed = {m: set() for m in range(nmod)}
    for n in order:
        kind, d = names[n]
        needed[where[n]] |= refs(kind, d, False)
    # An import brings in *all* public items of the imported file, and imports are not re-exported, so
    # a module must also import whatever the interfaces of those public items refer to. Iterate to a fixpoint.
    changed = True
    pub = set()
    imports = {m: set() for m in range(nmod)}
    while changed:
        changed = False
        for m in range(nmod):
            for x in list(needed[m]):
                if where[x] == m:
                    continue
                if x not in pub:
                    pub.add(x)
                    changed = True
                if where[x] not in imports[m]:
                    imports[m].add(where[x])
                    changed = True
            for src_mod in list(imports[m]):
                for x in pub:
                    if where[x] == src_mod:
                        kind, d = names[x]
                        extra = (refs(kind, d, True) | {x}) - needed[m]
                        if extra:
                            needed[m] |= extra
                            changed = True
    fname = lambda m: "m%d.pn" % m
    mods = []
    for m in range(nmod):
        decls = [(names[n][0], names[n][1], n in pub) for n in order if where[n] == m]
        rng.shuffle(decls)
        mods.append((fname(m), decls, sorted(fname(x) for x in imports[m])))
    return mods, {"where": where, "pub": sorted(pub)}


def module_source(decls, imports, style=None, scatter=None):
    """scatter: a random.Random - the import lines are then placed between (and after) the other declarations instead of at the
    top (an import may stand anywhere among the top-level declarations)."""
    p = Printer(Program(), style or Style())
    p.lines = []
    slots = {}
    if scatter is not None and decls:
        for imp in imports:
            slots.setdefault(scatter.randrange(len(decls) + 1), []).append(imp)
    else:
        for imp in imports:
            p.emit(0, 'import "%s";' % imp)
        if imports:
            p.emit(0, "")
    for k, (kind, d, is_pub) in enumerate(decls):
        for imp in slots.get(k, []):
            p.emit(0, 'import "%s";' % imp)
            p.emit(0, "")
        if kind == "const":
            p.decl_const(d, is_pub)
        elif kind == "struct":
            p.decl_struct(d, is_pub)
        else:
            p.decl_func(d, is_pub)
        p.emit(0, "")
    for imp in slots.get(len(decls), []):
        p.emit(0, 'import "%s";' % imp)
    return p.layout(p.lines)
