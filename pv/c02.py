"""C02 - the compiler never crashes and never fails silently.

Workload: corpus, mutated corpus, token soup, exhaustive short token sequences in three
contexts, nesting stress (<= 256), size stress (<= 64 KiB), module sets, every function body of <= 4/5 statements over
the statement-placement and goto/label alphabets, random dependency graphs (cycles of length 1-5 in every order).
Oracle: exit-state classifier over the worker (real penne API driven as main.rs does, including the rendering of
every diagnostic and lint in the four colour/charset configurations)."""
import json
import os
import time

from . import common, gen_mutate
from .common import HELD, VIOLATED, INCONCLUSIVE

PROP = "C02"
MAX_BYTES = 64 * 1024


def compile_request(files, wasm=False):
    return {"op": "alpha_compile", "files": [{"path": p, "src": s} for p, s in files], "wasm": wasm,
            "ir": True, "module_ir": True, "render": True}


def classify(files, build, wasm=False, timeout=30.0):
    """Returns (state, signature, detail, resp). state: ok | errors | <violation kind>."""
    kind, r = common.call(compile_request(files, wasm), build=build, timeout=timeout)
    if kind == "crash":
        return r.kind, r.signature(), r.to_json(), None
    if kind == "panic":
        return "panic", common.panic_signature(r), r, None
    st = r.get("status")
    if st == "ok":
        irs = r.get("module_irs") or []
        if len(irs) != len(files) or not r.get("ir") or any(not x for x in irs):
            return "silent", "success without IR for every module", {"n_module_irs": len(irs)}, r
        return "ok", None, None, r
    if st == "errors":
        if not r.get("errors"):
            return "silent", "failure with an empty list of errors (stage %s)" % r.get("stage"), r, r
        return "errors", None, None, r
    if st == "anyhow":
        return "silent", "failure without diagnostic: %s: %s" % (r.get("stage"), common.abstract_llvm_message(
            str(r.get("error"))[:120])), r, r
    raise common.HarnessError("unexpected worker status %r" % st)


def run_case(case):
    files = case["files"]
    total = sum(len(s.encode("utf-8", "surrogatepass")) for _p, s in files)
    if total > MAX_BYTES:
        return {"verdict": INCONCLUSIVE, "detail": "generator exceeded 64 KiB"}
    build = case.get("build", "chk")
    state, sig, detail, resp = classify(files, build, case.get("wasm", False))
    if build == "asan" and state != "sanitizer":
        # the AddressSanitizer build only contributes memory-error reports; every other exit state is judged
        # on the native builds (frame sizes, and with them stack depth limits, differ under instrumentation)
        return {"verdict": HELD if state in ("ok", "errors") else None, "cov": {"asan_cases": 1, "asan_state:" + state: 1},
                "nt": "asan|%s|%s" % (case["kind"].split(":")[0], state)}
    cov = {"kind:" + case["kind"]: 1, "state:" + state: 1, "build:" + build: 1}
    if state in ("ok", "errors"):
        codes = tuple(sorted(set(e["code"] for e in (resp.get("errors") or [])))) if state == "errors" else ()
        out = {"verdict": HELD, "cov": cov, "nt": "%s|%s|%s" % (case["kind"], state, ",".join(map(str, codes)))}
        if case.get("want_sample"):
            out["sample"] = {"kind": case["kind"], "source": files[0][1][:300], "state": state, "codes": list(codes)}
        return out
    if state == "stack_overflow" and case.get("construct"):
        sig = "stack_overflow: construct=%s" % case["construct"]
    if state == "silent":
        # a silent failure has no site to key on: key it on where the input came from, so that a silent failure on
        # another workload class (or another corpus file as it stands) is still reported
        k = case["kind"]
        origin = files[0][0] if k.startswith("corpus") else k.split(":")[0].split("_")[0].rstrip("0123456789")
        if case.get("cell"):
            origin += " " + case["cell"]        # enumerated families: the cell itself
        sig = "%s [on %s]" % (sig, origin)
    return {"verdict": VIOLATED, "sig": sig, "detail": detail, "cov": cov,
            "replay": {"files": files, "build": build, "wasm": case.get("wasm", False), "kind": case["kind"],
                       "meta": case.get("meta")}}


def intrinsic_name_sources():
    """Functions of the program named like the C symbols the builtins are lowered to (and like other well-known libc symbols), with
    their own signatures, next to every builtin: the generator's symbol table is shared between the two. (cell, source) pairs;
    also used by C03, which matches the defines of the IR against the functions of the source."""
    for name in ("abort", "snprintf", "write", "printf", "exit", "memcpy", "malloc", "main_", "trap"):
        for di, decl in enumerate(("fn %s()\n{\n}\n", "fn %s(code: i32)\n{\n}\n", "fn %s(code: i32) -> i32\n{\n\treturn: code\n}\n",
                                   "extern fn %s(code: i32);\n", "extern fn %s();\n", "pub extern fn %s(a: i64, b: i64, c: i64, d: i64) -> i64\n{\n\treturn: a\n}\n",
                                   "extern fn %s(buf: &[]u8, n: usize) -> u8;\n", "pub fn %s(code: i32) -> i32\n{\n\treturn: code + 1\n}\n")):
            for ui, use in enumerate(("\tabort!();\n", "\tpanic!(\"bad\");\n", "\tprint!(\"n = \", x, \"\\n\");\n",
                                      "\tif x == 2\n\t{\n\t\tpanic!(\"x = \", x);\n\t}\n\tprint!(\"ok\\n\");\n", "")):
                for first in (True, False):
                    main = "fn main() -> i32\n{\n\tvar x: i32 = 1;\n" + use + "\treturn: x\n}\n"
                    src = (decl % name + "\n" + main) if first else (main + "\n" + decl % name)
                    yield "`%s` declared in form %d %s builtin use %d" % (name, di, "before" if first else "after", ui), src


def cases(tier, seed):
    rng = common.rng_for(seed, PROP)
    corpus = gen_mutate.corpus()
    quick = tier == "quick"
    # 1. corpus as is
    for i, (p, t) in enumerate(corpus):
        yield {"kind": "corpus", "files": [(p, t)], "want_sample": i == 0}
    # 2. mutants
    n_mut = 2500 if quick else 400000
    for i in range(n_mut):
        p, t = rng.choice(corpus)
        _p2, t2 = rng.choice(corpus)
        k = 1 if rng.random() < 0.7 else rng.choice([2, 3])
        ops = []
        for _ in range(k):
            op, t = gen_mutate.mutate(rng, t, other=t2)
            ops.append(op)
        yield {"kind": "mutant:" + ops[0], "files": [(p, t)], "meta": ops, "want_sample": i < 2}
    # 3. token soup
    for i in range(400 if quick else 60000):
        yield {"kind": "soup", "files": [("soup.pn", gen_mutate.token_soup(rng, rng.choice([3, 8, 20, 60])))]}
    for i in range(150 if quick else 20000):
        ctx = rng.choice(list(gen_mutate.CONTEXTS))
        pre, post = gen_mutate.CONTEXTS[ctx]
        yield {"kind": "soup_in_" + ctx,
               "files": [("soup.pn", pre + gen_mutate.token_soup(rng, rng.choice([2, 5, 12])) + post)]}
    # 4. exhaustive short token sequences
    if quick:
        plan = [(gen_mutate.SEQ_ALPHABET, 1), (gen_mutate.SEQ_ALPHABET_SMALL, 2)]
    else:
        plan = [(gen_mutate.SEQ_ALPHABET, 2), (gen_mutate.SEQ_ALPHABET_SMALL, 3)]
    for alphabet, n in plan:
        for k in range(1, n + 1):
            for seq in gen_mutate.all_sequences(alphabet, k):
                body = " ".join(seq)
                for ctx, (pre, post) in gen_mutate.CONTEXTS.items():
                    yield {"kind": "seq%d_%s" % (k, ctx), "files": [("seq.pn", pre + body + post)]}
    # 5. nesting stress: chk up to 32, rel up to 256
    for construct in gen_mutate.NEST_CONSTRUCTS:
        for d in (1, 2, 8, 32):
            yield {"kind": "nest", "construct": construct, "files": [("nest.pn", gen_mutate.nesting(construct, d))],
                   "meta": {"construct": construct, "depth": d}}
        for d in (64, 128, 200, 256):
            yield {"kind": "nest", "construct": construct, "build": "rel",
                   "files": [("nest.pn", gen_mutate.nesting(construct, d))],
                   "meta": {"construct": construct, "depth": d}}
    # 6. size stress (kept under 64 KiB)
    for kind, n in [("decls", 2000), ("stmts", 4000), ("fns", 1500), ("array", 10000), ("args", 200),
                    ("labels", 4000), ("string", 60000), ("members", 3000)]:
        yield {"kind": "size:" + kind, "build": "rel", "files": [("size.pn", gen_mutate.size_stress(kind, n))]}
        yield {"kind": "size:" + kind, "files": [("size.pn", gen_mutate.size_stress(kind, max(1, n // 20)))]}
    # 7. module sets, and mutants of them; some for wasm
    sets = gen_mutate.module_sets(rng)
    for fs in sets:
        yield {"kind": "modules", "files": fs}
        yield {"kind": "modules_wasm", "files": fs, "wasm": True}
    for i in range(200 if quick else 20000):
        fs = [list(x) for x in rng.choice(sets)]
        j = rng.randrange(len(fs))
        op, fs[j][1] = gen_mutate.mutate(rng, fs[j][1])
        yield {"kind": "modules_mutant", "files": [tuple(x) for x in fs], "meta": op}
    # 10. statement-level small scope: every function body of <= 4 (quick) / 5 statements over the placement alphabet
    #     (blocks, naked and braced branches, loop, goto, label, assignment) and over the label/goto alphabet
    from . import gen_scope, gen_prog, c11
    for size in range(1, 5 if quick else 6):
        for b in gen_scope.c06_seqs(size, 3, {}):
            body = gen_scope.unique_labels(gen_scope.renumber_bumps(b)) + [("label", "l")]
            yield {"kind": "stmts_placement", "files": [("stmts.pn", gen_prog.to_source(gen_scope.program_with_main(body)))]}
    for size in range(1, 4 if quick else 5):
        for b in gen_scope.seqs(size, 2, gen_scope.C04_ATOMS, None, {}):
            yield {"kind": "stmts_goto", "files": [("stmts.pn", gen_prog.to_source(gen_scope.program_with_main(gen_scope.renumber_bumps(b))))]}
    from . import c05
    for size in range(1, 5 if quick else 6):
        for b in gen_scope.seqs(size, 2, c05.ATOMS_A, None, {}):
            yield {"kind": "stmts_scope", "files": [("stmts.pn", gen_prog.to_source(gen_scope.program_with_main(
                gen_scope.renumber_bumps(b))))]}
    for k, b in enumerate(c05.multigoto_bodies()):
        if quick and k % 4:
            continue
        yield {"kind": "stmts_multigoto", "files": [("stmts.pn", gen_prog.to_source(gen_scope.program_with_main(b)))]}
    # 12. expressions whose type cannot be inferred, or does not fit, in every statement context (the E5xx diagnostics point at
    #     whole sub-expressions: casts, literals, operations)
    exprs = ["cast x", "cast (x + 1u32)", "[cast x, cast x]", "cast x == cast x", "-cast x", "cast x as u8", "cast cast x", "&cast x",
             "[]", "[[]]", "1", "-1", "1 + 2", "[1, 2]", "[1, 2][0]", "1 == 2", "x as u8 as bool", "|[1, 2]|", "0x10 << 1", "'a' + 1",
             "\"s\"", "\"s\" \"t\"", "true + 1", "!1", "f(1)", "f(cast x)", "g()", "S { a: 1 }", "S { a: cast x }", "(cast x)", "p", "&p",
             # operands that carry an error of their own (undefined name, wrong argument count / type) inside each wrapper
             "cast nope", "cast f()", "cast f(1, 2)", "cast f(true)", "nope as u8", "f() as u8", "-nope", "!f()", "|nope|", "[nope, 1]",
             "S { a: nope }", "(f())", "nope + 1", "f(nope)", "f(f())", "nope[0]", "nope.a", "&nope"]
    contexts = ["\tvar y = %s;\n", "\tvar y;\n\ty = %s;\n", "\tif %s == %s\n\t{\n\t}\n", "\tprint!(%s);\n", "\tvar y: u64 = %s;\n",
                "\tvar y: bool = %s;\n", "\tvar y: []u8 = %s;\n", "\tf(%s);\n", "\tx = %s;\n", "\tvar y: [2]i8 = [%s, 1];\n",
                "\tvar y = [%s, %s];\n", "\tvar y = S { a: %s };\n", "\tif %s\n\t\tgoto end;\n\tend:\n", "\tvar y = %s as i64;\n"]
    pre = ("struct S\n{\n\ta: i32,\n}\n\nfn f(v: i32) -> i32\n{\n\treturn: v\n}\n\nfn g()\n{\n}\n\nfn main()\n{\n\tvar x: u32 = 5;\n"
           "\tvar p: &u32 = &x;\n")
    for e in exprs:
        for ci, c in enumerate(contexts):
            yield {"kind": "inference", "files": [("infer.pn", pre + c.replace("%s", e) + "}\n")], "cell": "`%s` in context %d" % (e, ci)}
    # 13. every value type of nesting depth <= 3 in every declaration position (C11 judges the verdicts; here only the exit state)
    for ws, base, text in c11.enum_types(3 if not quick else 2) + [t for t in c11.enum_types(3) if quick and len(t[0]) == 3 and t[1] != "void"]:
        for pos, fmt in c11.POSITIONS.items():
            yield {"kind": "types", "files": [("types.pn", c11.ENUM_PRE + (fmt % text) + "\n\nfn main() -> i32\n{\n\treturn: 0\n}\n")],
                   "cell": "`%s` as %s" % (text, pos)}
    # 14. functions of the program named like the C symbols the builtins are lowered to (see intrinsic_name_sources)
    for cell, src in intrinsic_name_sources():
        yield {"kind": "intrinsic_names", "files": [("names.pn", src)], "cell": cell}
    # 11. dependency graphs of constants and structures in random declaration order, half of them with a cycle of length 1-5
    for i in range(2000 if quick else 40000):
        g_rng = common.rng_for(seed, PROP, "depgraph", i)
        src = c11.graph_source(g_rng, i)[0]
        yield {"kind": "depgraph", "files": [("graph.pn", src)]}
    for n, kind, order, src in c11.pure_cycle_sources((1, 2, 3, 4, 5) if quick else (1, 2, 3, 4, 5, 6)):
        yield {"kind": "depcycle", "files": [("cycle.pn", src)]}
    # 9. AddressSanitizer build of the worker (Rust side of the first-generation compiler) on a sample
    if not quick:
        for p, t in corpus:
            yield {"kind": "corpus", "build": "asan", "files": [(p, t)]}
        for fs in sets + gen_mutate.corpus_import_sets():
            yield {"kind": "modules", "build": "asan", "files": fs}
        for i in range(4000):
            p, t = rng.choice(corpus)
            op, t2 = gen_mutate.mutate(rng, t)
            yield {"kind": "mutant:" + op, "build": "asan", "files": [(p, t2)]}
    # 8. corpus for wasm
    for p, t in corpus:
        yield {"kind": "corpus_wasm", "files": [(p, t)], "wasm": True}


def minimise(replay, sig, budget_s=8.0):
    """Token-level delta debugging of the first file that keeps the same signature."""
    t0 = time.time()
    files = [tuple(f) for f in replay["files"]]
    build = replay.get("build", "chk")

    def same(fs):
        state, s, _d, _r = classify(fs, build, replay.get("wasm", False), timeout=20)
        if state == "stack_overflow":
            return sig.startswith("stack_overflow")
        return s == sig

    for fi in range(len(files)):
        toks = gen_mutate.tokenize(files[fi][1])
        n = 2
        while len(toks) >= 2 and time.time() - t0 < budget_s:
            chunk = max(1, len(toks) // n)
            reduced = False
            for start in range(0, len(toks), chunk):
                cand = toks[:start] + toks[start + chunk:]
                fs = list(files)
                fs[fi] = (files[fi][0], "".join(cand))
                if same(fs):
                    toks = cand
                    files = fs
                    n = max(n - 1, 2)
                    reduced = True
                    break
                if time.time() - t0 > budget_s:
                    break
            if not reduced:
                if chunk == 1:
                    break
                n = min(n * 2, len(toks))
    out = dict(replay)
    out["files"] = files
    out["minimised"] = True
    return out


def replay_file(path):
    with open(path) as f:
        data = json.load(f)
    rp = data["replay"]
    common.ensure_worker(rp.get("build", "chk"))
    state, sig, detail, _r = classify([tuple(x) for x in rp["files"]], rp.get("build", "chk"), rp.get("wasm", False))
    print("state=%s signature=%s" % (state, sig))
    if state in ("ok", "errors"):
        print("replay: property holds on this input now")
        return 0
    print("VIOLATION property=%s replay=%s" % (PROP, path))
    return 1


def main(tier, seed, replay=None):
    if replay:
        return replay_file(replay)
    common.ensure_worker("chk")
    common.ensure_worker("rel")
    if tier != "quick":
        common.ensure_worker("asan")
    run = common.Run(PROP, tier, seed)
    run.assumptions = [
        "inputs are UTF-8, <= 64 KiB in total, syntactic nesting <= 256",
        "'never hangs' is observed in its bounded form: no answer within 30 s, re-tried alone with 120 s",
        "dev-profile ('chk': debug assertions, overflow checks) worker for nesting <= 32; release worker for deeper nesting and size stress; 8 MiB main-thread stack",
    ]
    results = common.run_sharded(run_case, cases(tier, seed))
    for r in results:
        run.feed(r)
    # shrink each distinct new violation before it is written out
    for sig in list(run.violations):
        detail, rp, n = run.violations[sig]
        try:
            rp2 = minimise(rp, sig)
            run.violations[sig] = (detail, rp2, n)
        except common.HarnessError:
            pass
    states = {k[6:]: v for k, v in run.counters.items() if k.startswith("state:")}
    return run.finish(
        rule="each case = one source set pushed through lex/parse/expand/scope/type/analyse/lint/resolve/generate/link "
             "exactly as main.rs does; distinct_nontrivial counts distinct (workload kind, exit state, set of error codes) "
             "triples observed; sequences of <= k tokens are enumerated exhaustively per context",
        coverage_extra={"exit_states": states},
        min_evaluations=1000)
