"""C07 - no implicit conversions: ill-typed programs are rejected.

 1. must-accept: generated well-typed programs (also type-monitored);
 2. single type-breaking edits of a known kind over all primitive type pairs: rejected with the documented code;
 3. resolved-tree type monitor (worker/src/typemon.rs) over every accepted input (corpus, mutants, module sets)."""
import json

from . import common, gen_mutate, gen_prog, c01
from .common import HELD, VIOLATED, INCONCLUSIVE
from .gen_prog import INTS, INTS_S, INTS_U

PROP = "C07"
C08_RULES = ("whole_copy", "write_target", "address_of")     # judged by C08
PRIMS = INTS + ["bool", "char8"]


def lit_for(t, v=1):
    if t == "bool":
        return "true" if v else "false"
    if t == "char8":
        return "'a'" if v else "'b'"
    return "%d%s" % (v, t)


def wrap_main(body, pre=""):
    return pre + "fn main() -> i32\n{\n" + "".join("\t" + l + "\n" for l in body) + "\treturn: 0\n}\n"


def edits():
    """(cell name, source, set of acceptable documented codes)"""
    out = []
    ARITH = ["+", "-", "*", "/", "%"]
    BITW = ["&", "|", "^", "<<", ">>"]
    CMP = ["==", "!=", "<", ">", "<=", ">="]
    # operand type swap
    for a in PRIMS:
        for b in PRIMS:
            if a == b:
                continue
            ops = []
            if a in INTS and b in INTS:
                ops += ARITH
            if a in INTS_U and b in INTS_U:
                ops += BITW
            for op in ops:
                out.append(("swap:%s:%s:%s" % (a, op, b), wrap_main([
                    "var a: %s = %s;" % (a, lit_for(a)), "var b: %s = %s;" % (b, lit_for(b)),
                    "var c: %s = a %s b;" % (a, op)]), {551}))
            for op in CMP:
                if op not in ("==", "!=") and ("bool" in (a, b)):
                    pass
                out.append(("cmp:%s:%s:%s" % (a, op, b), wrap_main([
                    "var a: %s = %s;" % (a, lit_for(a)), "var b: %s = %s;" % (b, lit_for(b)),
                    "if a %s b" % op, "{", "}"]), {551}))
    # operator outside its class
    for t in ["bool"]:
        for op in ARITH:
            out.append(("class:arith:%s:%s" % (t, op), wrap_main([
                "var a: %s = %s;" % (t, lit_for(t)), "var b: %s = %s;" % (t, lit_for(t, 0)),
                "var c: %s = a %s b;" % (t, op)]), {550}))
    for t in INTS_S + ["bool", "usize", "char8"]:
        for op in BITW:
            out.append(("class:bitwise:%s:%s" % (t, op), wrap_main([
                "var a: %s = %s;" % (t, lit_for(t)), "var b: %s = %s;" % (t, lit_for(t)),
                "var c: %s = a %s b;" % (t, op)]), {550}))
    for t in INTS_U + ["usize", "bool", "char8"]:
        out.append(("class:neg:%s" % t, wrap_main([
            "var a: %s = %s;" % (t, lit_for(t)), "var c: %s = -a;" % t]), {550}))
    # the sign of a literal is the operator applied to the literal: a literal that carries an unsigned suffix cannot
    # be negated, whatever the magnitude (an unsuffixed `-1` in an unsigned context is a literal out of range instead: L1142, C09)
    for t in INTS_U + ["usize"]:
        for v in (1, 23, 128, 2 ** 31, 2 ** 63, 2 ** 127 - 1, 2 ** 127, 2 ** 127 + 1, 2 ** 128 - 1):
            for form, lit in (("suffixed", "-%d%s" % (v, t)), ("hex", "-0x%x%s" % (v, t)), ("spaced", "- %d%s" % (v, t))):
                out.append(("class:neglit:%s:%s:%d" % (t, form, v.bit_length()), wrap_main(["var c: %s = %s;" % (t, lit)]), {550}))
    for t in INTS_S + ["usize", "char8"]:
        out.append(("class:not:%s" % t, wrap_main([
            "var a: %s = %s;" % (t, lit_for(t)), "var c: %s = !a;" % t]), {550}))
    for op in ["<", ">", "<=", ">="]:
        out.append(("class:ptr_order:%s" % op, wrap_main([
            "var x: i32 = 1;", "var y: i32 = 2;", "var p: &i32 = &x;", "var q: &i32 = &y;",
            "if &p %s &q" % op, "{", "}"]), {550}))
    # assignment / initialisation / argument / return mismatch
    for a in PRIMS:
        for b in PRIMS:
            if a == b:
                continue
            out.append(("assign:%s:%s" % (a, b), wrap_main([
                "var a: %s = %s;" % (a, lit_for(a)), "var b: %s = %s;" % (b, lit_for(b)), "a = b;"]), {504}))
            out.append(("init:%s:%s" % (a, b), wrap_main([
                "var b: %s = %s;" % (b, lit_for(b)), "var a: %s = b;" % a]), {504, 500}))
            out.append(("arg:%s:%s" % (a, b), wrap_main([
                "var b: %s = %s;" % (b, lit_for(b)), "f(b);"], pre="fn f(x: %s)\n{\n}\n" % a), {512}))
            out.append(("ret:%s:%s" % (a, b),
                        "fn f() -> %s\n{\n\tvar b: %s = %s;\n\treturn: b\n}\n" % (a, b, lit_for(b)) +
                        wrap_main(["var r: %s = f();" % a]), {333}))
            # the same mismatch where the target is an element, a member or what a pointer points to
            out.append(("elem_assign:%s:%s" % (a, b), wrap_main([
                "var b: %s = %s;" % (b, lit_for(b)), "var arr: [2]%s = [%s, %s];" % (a, lit_for(a), lit_for(a)), "arr[1] = b;"]), {504}))
            out.append(("elem_assign_nested:%s:%s" % (a, b), wrap_main([
                "var b: %s = %s;" % (b, lit_for(b)), "var m: [2][2]%s = [[%s, %s], [%s, %s]];" % ((a,) + (lit_for(a),) * 4),
                "m[1][0] = b;"]), {504}))
            out.append(("elem_assign_via_pointer:%s:%s" % (a, b), wrap_main([
                "var b: %s = %s;" % (b, lit_for(b)), "var arr: [2]%s = [%s, %s];" % (a, lit_for(a), lit_for(a)), "g(&arr, b);"],
                pre="fn g(x: &[]%s, v: %s)\n{\n\tx[0] = v;\n}\n" % (a, b)), {504}))
            out.append(("member_assign:%s:%s" % (a, b), wrap_main([
                "var b: %s = %s;" % (b, lit_for(b)), "var s = Pair { m: %s, k: 1 };" % lit_for(a), "s.m = b;"],
                pre="struct Pair\n{\n\tm: %s,\n\tk: i32,\n}\n" % a), {504}))
            out.append(("deref_assign:%s:%s" % (a, b), wrap_main([
                "var b: %s = %s;" % (b, lit_for(b)), "var a: %s = %s;" % (a, lit_for(a)), "g(&a, b);"],
                pre="fn g(x: &%s, v: %s)\n{\n\tx = v;\n}\n" % (a, b)), {504}))
            out.append(("elem:%s:%s" % (a, b), wrap_main([
                "var b: %s = %s;" % (b, lit_for(b)), "var arr: [2]%s = [%s, b];" % (a, lit_for(a))]), {504, 500, 551}))
    # a mismatching call nested inside an argument that is itself coerced (array literal to view, structure literal to view,
    # indexed row to view); inner array lengths in view coercions
    half = "fn half(x: i32) -> i32\n{\n\treturn: x / 2\n}\nfn sum(x: []i32) -> i32\n{\n\treturn: x[0]\n}\nstruct Box\n{\n\tv: i32,\n}\n" \
           "fn unbox(b: Box) -> i32\n{\n\treturn: b.v\n}\nfn row(x: []i32) -> i32\n{\n\treturn: x[0]\n}\n"
    for b in [t for t in PRIMS if t != "i32"]:
        decl = "var b: %s = %s;" % (b, lit_for(b))
        out.append(("nested:array_literal_arg:%s" % b, wrap_main([decl, "var r: i32 = sum([half(1), half(b)]);"], pre=half), {512}))
        out.append(("nested:struct_literal_arg:%s" % b, wrap_main([decl, "var r: i32 = unbox(Box { v: half(b) });"], pre=half), {512}))
        out.append(("nested:index_of_row_arg:%s" % b, wrap_main([decl, "var m: [2][2]i32 = [[1, 2], [3, 4]];",
                                                                  "var r: i32 = row(m[half(b)]);"], pre=half), {512, 504, 551}))
    out.append(("nested:argc_in_array_literal_arg", wrap_main(["var r: i32 = sum([half(1), half(1, 2)]);"], pre=half), {511}))
    out.append(("nested:argc_in_struct_literal_arg", wrap_main(["var r: i32 = unbox(Box { v: half() });"], pre=half), {510}))
    mat = "fn corner(rows: [][4]i32) -> i32\n{\n\treturn: rows[1][0]\n}\nfn poke(rows: &[][4]i32)\n{\n\trows[1][0] = 9;\n}\n"
    out.append(("inner_length:view", wrap_main(["var m: [2][3]i32 = [[1, 2, 3], [4, 5, 6]];", "var r: i32 = corner(m);"], pre=mat), {512}))
    out.append(("inner_length:pointer", wrap_main(["var m: [2][3]i32 = [[1, 2, 3], [4, 5, 6]];", "poke(&m);"], pre=mat), {512, 513}))
    out.append(("inner_length:element_type", wrap_main(["var m: [2][4]i64 = [[1, 2, 3, 4], [5, 6, 7, 8]];", "var r: i32 = corner(m);"], pre=mat), {512}))
    # arrays handed to a view or a slice pointer of another element type (the only documented alias is char8/u8 in strings)
    for a in PRIMS:
        for b in PRIMS:
            if a == b or {a, b} == {"char8", "u8"}:
                continue
            arr = "var arr: [2]%s = [%s, %s];" % (b, lit_for(b), lit_for(b))
            out.append(("view_arg:%s:%s" % (a, b), wrap_main([arr, "f(arr);"], pre="fn f(x: []%s)\n{\n}\n" % a), {512}))
            out.append(("slice_pointer_arg:%s:%s" % (a, b), wrap_main([arr, "f(&arr);"], pre="fn f(x: &[]%s)\n{\n}\n" % a), {512, 513}))
            out.append(("view_of_literal_arg:%s:%s" % (a, b), wrap_main(["var b: %s = %s;" % (b, lit_for(b)), "f([b, b]);"],
                                                                          pre="fn f(x: []%s)\n{\n}\n" % a), {512, 504, 500, 551}))
    # argument count, including the empty argument list, in expression and statement position
    for nparams in (1, 2, 3):
        params = ", ".join("p%d: i32" % k for k in range(nparams))
        for nargs in range(0, nparams + 2):
            if nargs == nparams:
                continue
            args = ", ".join("1" for _ in range(nargs))
            code = 510 if nargs < nparams else 511
            out.append(("argc:stmt:%d:%d" % (nparams, nargs), wrap_main(["f(%s);" % args], pre="fn f(%s)\n{\n}\n" % params), {code}))
            out.append(("argc:expr:%d:%d" % (nparams, nargs), wrap_main(["var r: i32 = g(%s);" % args],
                                                                       pre="fn g(%s) -> i32\n{\n\treturn: 1\n}\n" % params), {code}))
    for t in PRIMS:
        out.append(("argc:few:%s" % t, wrap_main(["f(%s);" % lit_for(t)], pre="fn f(x: %s, y: %s)\n{\n}\n" % (t, t)), {510}))
        out.append(("argc:many:%s" % t, wrap_main(["f(%s, %s);" % (lit_for(t), lit_for(t))], pre="fn f(x: %s)\n{\n}\n" % t), {511}))
        out.append(("arg:missing_addr:%s" % t, wrap_main([
            "var a: %s = %s;" % (t, lit_for(t)), "f(a);"], pre="fn f(x: &%s)\n{\n}\n" % t), {513}))
        out.append(("addr:excess:%s" % t, wrap_main([
            "var a: %s = %s;" % (t, lit_for(t)), "var b: %s = %s;" % (t, lit_for(t)), "&b = &a;"]), {506}))
        out.append(("addr:mismatch:%s" % t, wrap_main([
            "var a: %s = %s;" % (t, lit_for(t)), "var b: %s = %s;" % (t, lit_for(t)), "var x: &%s = &a;" % t,
            "x = &b;"]), {507}))
    out.append(("arg:missing_addr:array", wrap_main(["var a: [4]u8 = [1, 2, 3, 4];", "f(a);"],
                                                    pre="fn f(x: &[]u8)\n{\n}\n"), {513}))
    # illegal casts
    for t in INTS + ["char8"]:
        out.append(("cast:%s:bool" % t, wrap_main(["var a: %s = %s;" % (t, lit_for(t)), "var b: bool = a as bool;"]), {552}))
    for t in [x for x in INTS if x != "u8"] + ["bool"]:
        out.append(("cast:%s:char8" % t, wrap_main(["var a: %s = %s;" % (t, lit_for(t)), "var b: char8 = a as char8;"]), {552}))
        if t != "bool":
            out.append(("cast:char8:%s" % t, wrap_main(["var a: char8 = 'a';", "var b: %s = a as %s;" % (t, t)]), {552}))
    out.append(("cast:ptr:i64", wrap_main(["var x: i32 = 1;", "var p: &i32 = &x;", "var b: usize = &p as usize;"]), {552}))
    return out


def compile_files(files, typemon=False):
    return common.call({"op": "alpha_compile", "files": [{"path": p, "src": s} for p, s in files],
                        "ir": False, "module_ir": False, "typemon": typemon}, build="chk", timeout=60)


def run_case(case):
    kind = case[0]
    if kind == "edit":
        _, name, src, want = case
        k, r = compile_files([("edit.pn", src)])
        replay = {"source": src, "cell": name, "documented_codes": sorted(want)}
        cov = {"edit_cells": 1, "edit:" + name.split(":")[0]: 1}
        if k == "crash":
            return {"verdict": VIOLATED, "sig": "compiler crash on ill-typed program: " + r.signature(), "detail": r.to_json(), "replay": replay, "cov": cov}
        if k == "panic":
            return {"verdict": VIOLATED, "sig": "compiler panic on ill-typed program: " + common.panic_signature(r), "detail": r, "replay": replay, "cov": cov}
        if r["status"] == "ok":
            return {"verdict": VIOLATED, "sig": "ill-typed program accepted: %s" % cell_class(name), "detail": name,
                    "replay": replay, "cov": cov}
        observed = set(e["code"] for e in r.get("errors", []))
        replay["observed_codes"] = sorted(observed)
        if not (observed & want):
            return {"verdict": VIOLATED, "sig": "ill-typed program rejected without its documented code: %s: got %s want one of %s"
                    % (cell_class(name), sorted(observed), sorted(want)), "detail": name, "replay": replay, "cov": cov}
        for c in observed - want:
            cov["cascade_code_%d" % c] = 1
        out = {"verdict": HELD, "cov": cov, "nt": "edit:" + name}
        if name in ("swap:i32:+:i64", "class:neg:u16", "cast:i32:bool"):
            out["sample"] = {"cell": name, "source": src, "observed_codes": sorted(observed)}
        return out
    if kind == "accept":
        _, seed, i = case
        prog, _c, prng = c01.make_program(seed + 77, i)
        files = [("gen.pn", gen_prog.to_source(prog, gen_prog.Style(rng=prng)))]
        tag = "generated"
    else:
        _, tag, files = case
    k, r = compile_files(files, typemon=True)
    cov = {"monitored:" + tag: 1}
    if k != "resp" or r["status"] != "ok":
        if kind == "accept" and (k != "resp" or r["status"] != "ok"):
            codes = sorted(set(e["code"] for e in r.get("errors", []))) if k == "resp" else k
            return {"verdict": VIOLATED, "sig": "well-typed generated program not accepted: %s" % codes, "detail": str(r)[:400],
                    "replay": {"files": files}, "cov": cov}
        return {"verdict": None, "cov": {"not_accepted:" + tag: 1}}
    stats = r["typemon_stats"]
    for kk, v in stats["checked"].items():
        cov["typemon_checked:" + kk] = v
    for kk, v in stats["recorded"].items():
        cov["typemon_recorded:" + kk] = v
    cov["typemon_nodes"] = sum(stats["checked"].values())
    reports = [x for x in r["typemon"] if x["rule"] not in C08_RULES]
    if reports:
        rep = reports[0]
        sig = "accepted program breaks type rule %s: %s" % (rep["rule"], strip_names(rep["detail"]))
        if rep["rule"] == "member_initialiser":
            # one defect (initialisers of structure literals are never compared with the member types), many type pairs
            sig = "accepted program breaks type rule member_initialiser"
        return {"verdict": VIOLATED, "sig": sig,
                "detail": r["typemon"][:3], "replay": {"files": files, "tag": tag}, "cov": cov}
    return {"verdict": HELD, "cov": cov, "nt": "mon:%s:%d" % (tag, min(50, cov["typemon_nodes"] // 20))}


def cell_class(name):
    parts = name.split(":")
    return parts[0] if parts[0] not in ("class", "cast", "arg", "addr", "argc") else ":".join(parts[:2])


def strip_names(detail):
    import re
    return re.sub(r"[A-Za-z_][A-Za-z0-9_]*: ", "", detail, count=1)[:120]


def cases(tier, seed):
    rng = common.rng_for(seed, PROP)
    quick = tier == "quick"
    all_edits = edits()
    if quick:
        rng2 = common.rng_for(seed, PROP, "subset")
        keep = [e for e in all_edits if not e[0].startswith(("swap", "cmp", "assign", "init", "arg:", "ret", "elem"))
                or rng2.random() < 0.25 or e[0].startswith("arg:missing")]
    else:
        keep = all_edits
    for name, src, want in keep:
        yield ("edit", name, src, want)
    for i in range(300 if quick else 4000):
        yield ("accept", seed, i)
    corpus = gen_mutate.corpus()
    for p, t in corpus:
        yield ("files", "corpus", [(p, t)])
    for fs in gen_mutate.corpus_import_sets():
        yield ("files", "modules", fs)
    for i in range(600 if quick else 40000):
        p, t = rng.choice(corpus)
        op, t2 = gen_mutate.mutate(rng, t, op=rng.choice(["tok_type", "tok_type", "num_edit", "amp", "rename_use",
                                                           "tok_swap", "tok_replace", "tok_dup", "paren_wrap"]))
        yield ("files", "mutant", [(p, t2)])


def replay_file(path):
    with open(path) as f:
        data = json.load(f)
    rp = data["replay"]
    common.ensure_worker("chk")
    if "source" in rp:
        r = run_case(("edit", rp["cell"], rp["source"], set(rp["documented_codes"])))
    else:
        r = run_case(("files", rp.get("tag", "replay"), [tuple(x) for x in rp["files"]]))
    if r.get("verdict") == VIOLATED:
        print(r["sig"])
        print("VIOLATION property=%s replay=%s" % (PROP, path))
        return 1
    print("replay: property holds on this input now")
    return 0


def main(tier, seed, replay=None):
    if replay:
        return replay_file(replay)
    common.ensure_worker("chk")
    run = common.Run(PROP, tier, seed)
    for r in common.run_sharded(run_case, cases(tier, seed)):
        if r.get("verdict") is None and "harness_error" not in r:
            run.merge_counters(r.get("cov"))
            continue
        run.feed(r)
    run.assumptions = [
        "edit templates use explicitly typed variables so that inference cannot absorb the edit; the documented code must be present, cascade codes are recorded",
        "where the documentation shows two codes for one situation (initialiser of the wrong type: E500 / E504) either is accepted",
        "arithmetic on char8, `!` on bool and char8/u8 aliasing of string arrays are recorded by the type monitor, not judged (the property does not fix them)",
    ]
    checked = {k.split(":", 1)[1]: int(v) for k, v in run.counters.items() if k.startswith("typemon_checked:")}
    return run.finish(
        rule="edit cells: one program per (edit kind, type pair/operator) with a documented verdict; monitored inputs: accepted generated programs, corpus "
             "files, import closures and accepted corpus mutants whose resolved trees are walked by the type monitor. distinct_nontrivial = distinct "
             "edit cells + distinct (workload, monitored-node bucket)",
        coverage_extra={"type_monitor_assertions": checked, "type_monitor_nodes": int(run.counters.get("typemon_nodes", 0))},
        min_evaluations=300)
