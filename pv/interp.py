"""R1: reference interpreter for the G1 AST, written from README.md / docs/*.md.

Unbounded Python ints masked to the type width; C-like truncating signed division;
logical right shift on unsigned; extension chosen by the source type of a cast;
explicit memory model with liveness so that what Penne leaves undefined (division by
zero, MIN / -1, over-wide shifts, out-of-range index, uninitialised read, dangling
pointer, runaway loops) raises Undefined and the program is discarded."""

from .gen_prog import BITS, INTS, INTS_S, SIZES, base_of, int_range, is_signed, ptr_depth


class Undefined(Exception):
    pass


class Goto(Exception):
    def __init__(self, label):
        self.label = label


class Box:
    __slots__ = ("v", "alive")

    def __init__(self, v=None):
        self.v = v
        self.alive = True


def wrap(t, v):
    """Two's complement wrap of v into type t."""
    if t == "bool":
        return bool(v)
    b = BITS[t]
    v &= (1 << b) - 1
    if is_signed(t) and v >= (1 << (b - 1)):
        v -= 1 << b
    return v


class Interp:
    def __init__(self, prog, step_limit=20000):
        self.p = prog
        self.out = bytearray()
        self.steps = 0
        self.step_limit = step_limit
        self.funcs = {f["name"]: f for f in prog.funcs}
        self.structs = {s["name"]: s for s in prog.structs}
        self.const_boxes = {}
        self.const_state = {}
        self.trace = {"loop_iters": 0, "gotos": 0, "calls": 0, "prints": 0}
        self.call_events = []   # for the non-interference monitor

    # ---- storage
    def make_storage(self, ty, init=None):
        k = ty[0]
        if k == "p":
            return Box(init)
        if k == "a":
            if init is None:
                return Box([self.make_storage(ty[2]) for _ in range(ty[1])])
            if len(init) != ty[1]:
                raise Undefined("array length mismatch")
            return Box([self.make_storage(ty[2], x) for x in init])
        if k in ("s", "w"):
            s = self.structs[ty[1]]
            if init is None:
                return Box({m: self.make_storage(mt) for m, mt in s["members"]})
            return Box({m: self.make_storage(mt, init[m]) for m, mt in s["members"]})
        if k in ("ptr", "sliceptr", "slice"):
            return Box(init)
        raise ValueError(ty)

    def snapshot(self, ty, box):
        """Deep value (python data) of a storage, for copies."""
        self.check_alive(box)
        k = ty[0]
        if k == "p":
            if box.v is None:
                raise Undefined("read of uninitialised value")
            return box.v
        if k == "a":
            return [self.snapshot(ty[2], b) for b in box.v]
        if k in ("s", "w"):
            s = self.structs[ty[1]]
            return {m: self.snapshot(mt, box.v[m]) for m, mt in s["members"]}
        raise ValueError(ty)

    def check_alive(self, box):
        if box is None:
            raise Undefined("null/uninitialised pointer")
        if not box.alive:
            raise Undefined("dangling pointer")

    def kill(self, ty, box):
        box.alive = False
        k = ty[0]
        if k == "a" and isinstance(box.v, list):
            for b in box.v:
                self.kill(ty[2], b)
        elif k in ("s", "w") and isinstance(box.v, dict):
            s = self.structs[ty[1]]
            for m, mt in s["members"]:
                self.kill(mt, box.v[m])

    # ---- references
    def resolve(self, frame, ref):
        """Box and type of the object a reference path denotes (after auto-deref of the base)."""
        base, steps = ref
        ty, box = self.lookup(frame, base)
        # auto-deref to the base type
        while ty[0] == "ptr":
            self.check_alive(box)
            box = box.v
            ty = ty[1]
            self.check_alive(box)
        if ty[0] in ("slice", "sliceptr"):
            self.check_alive(box)
            target = box.v          # Box holding the list
            self.check_alive(target)
            ty = ("a", len(target.v), ty[1])
            box = target
        self.check_alive(box)
        for st in steps:
            if st[0] == "m":
                s = self.structs[ty[1]]
                mt = dict(s["members"])[st[1]]
                box = box.v[st[1]]
                ty = mt
            else:
                idx = self.eval(frame, st[1])
                if not (0 <= idx < len(box.v)):
                    raise Undefined("index out of range")
                box = box.v[idx]
                ty = ty[2]
            self.check_alive(box)
        return ty, box

    def lookup(self, frame, name):
        for scope in reversed(frame):
            if name in scope:
                return scope[name]
        if name in self.const_boxes or any(c["name"] == name for c in self.p.consts):
            return self.const_box(name)
        raise Undefined("unknown variable " + name)

    def const_box(self, name):
        if name in self.const_boxes:
            return self.const_boxes[name]
        if self.const_state.get(name) == "busy":
            raise Undefined("cyclic constant")
        self.const_state[name] = "busy"
        c = next(c for c in self.p.consts if c["name"] == name)
        v = self.eval([{}], c["expr"])
        box = self.make_storage(c["ty"], v)
        self.const_boxes[name] = (c["ty"], box)
        self.const_state[name] = "done"
        return self.const_boxes[name]

    # ---- expressions
    def tick(self):
        self.steps += 1
        if self.steps > self.step_limit:
            raise Undefined("step limit")

    def eval(self, frame, e):
        self.tick()
        k = e[0]
        if k == "lit":
            t = e[1][1]
            if t == "bool":
                return bool(e[2])
            lo, hi = int_range(t) if t != "char8" else (0, 255)
            if not (lo <= e[2] <= hi):
                raise Undefined("literal out of range")
            return e[2]
        if k == "cast_lit":
            return self.eval(frame, e[2])
        if k == "read":
            ty, box = self.resolve(frame, e[2])
            return self.snapshot(ty, box)
        if k == "paren":
            return self.eval(frame, e[2])
        if k == "bin":
            t = e[1][1]
            a = self.eval(frame, e[3])
            b = self.eval(frame, e[4])
            return self.binop(t, e[2], a, b)
        if k == "un":
            t = e[1][1]
            a = self.eval(frame, e[3])
            if e[2] == "-":
                return wrap(t, -a)
            if e[2] == "!":
                return wrap(t, ~a)
            raise ValueError(e[2])
        if k == "cast":
            src = e[2][1][1]
            dst = e[1][1]
            v = self.eval(frame, e[2])
            if src == "bool":
                v = 1 if v else 0
            # v is already the mathematical value of the source (sign carried by Python int):
            # sign/zero extension follows the source type, truncation wraps.
            return wrap(dst, v)
        if k == "len":
            ty, box = self.resolve(frame, e[2])
            if ty[0] != "a":
                raise Undefined("length of non-array")
            return len(box.v)
        if k == "sizeof":
            return self.sizeof(e[2])
        if k == "call":
            return self.call(frame, e[2], e[3])
        if k == "arr":
            return [self.eval(frame, x) for x in e[2]]
        if k == "struct":
            return {m: self.eval(frame, x) for m, x in e[3]}
        if k == "addr":
            return self.address(frame, e[1], e[2])
        raise ValueError(e)

    def binop(self, t, op, a, b):
        if op == "+":
            return wrap(t, a + b)
        if op == "-":
            return wrap(t, a - b)
        if op == "*":
            return wrap(t, a * b)
        if op in ("/", "%"):
            if b == 0:
                raise Undefined("division by zero")
            lo, _hi = int_range(t) if t != "char8" else (0, 255)
            if is_signed(t) and a == lo and b == -1:
                raise Undefined("MIN / -1")
            q = abs(a) // abs(b)
            if (a < 0) != (b < 0):
                q = -q
            if op == "/":
                return wrap(t, q)
            return wrap(t, a - q * b)
        if op == "&":
            return wrap(t, a & b)
        if op == "|":
            return wrap(t, a | b)
        if op == "^":
            return wrap(t, a ^ b)
        if op in ("<<", ">>"):
            if not (0 <= b < BITS[t]):
                raise Undefined("shift amount >= width")
            if op == "<<":
                return wrap(t, a << b)
            return wrap(t, a >> b)      # a is non-negative for unsigned types: logical shift
        raise ValueError(op)

    def compare(self, frame, c):
        op, l, r = c
        a = self.eval(frame, l)
        b = self.eval(frame, r)
        if op == "==":
            return a == b
        if op == "!=":
            return a != b
        if op == "<":
            return a < b
        if op == ">":
            return a > b
        if op == "<=":
            return a <= b
        if op == ">=":
            return a >= b
        raise ValueError(op)

    # layout: primitives aligned to min(size, 8); structures and words to their widest member; size rounded up to the alignment
    def align_of(self, ty):
        k = ty[0]
        if k == "p":
            return min(SIZES[ty[1]], 8)
        if k == "a":
            return self.align_of(ty[2])
        if k == "w":
            # a word is laid out like a structure of its members (measured: a word128 whose widest member is a u32 is
            # 4-aligned), it only has to fill its declared size exactly
            return max([self.align_of(mt) for _m, mt in self.structs[ty[1]]["members"]] or [1])
        if k == "s":
            return max([self.align_of(mt) for _m, mt in self.structs[ty[1]]["members"]] or [1])
        if k in ("ptr",):
            return 8
        raise Undefined("alignment of " + str(ty))

    def sizeof(self, ty):
        k = ty[0]
        if k == "p":
            return SIZES[ty[1]]
        if k == "a":
            return ty[1] * self.sizeof(ty[2])
        if k == "w":
            return self.structs[ty[1]]["bits"] // 8
        if k == "s":
            off = 0
            for _m, mt in self.structs[ty[1]]["members"]:
                a = self.align_of(mt)
                off = (off + a - 1) // a * a
                off += self.sizeof(mt)
            a = self.align_of(ty)
            return (off + a - 1) // a * a
        if k == "ptr":
            return 8
        raise Undefined("size of " + str(ty))

    def address(self, frame, pty, ref):
        """Value of `&..&ref` with the pointer type pty."""
        base, steps = ref
        vty, vbox = self.lookup(frame, base)
        if pty[0] == "sliceptr":
            # &a for an array variable, or &x passing a slice pointer on
            if vty[0] == "a":
                self.check_alive(vbox)
                return vbox
            if vty[0] == "sliceptr":
                self.check_alive(vbox)
                return vbox.v
            if vty[0] == "ptr" and vty[1][0] == "a":
                return vbox.v
            raise Undefined("bad slice pointer source")
        if steps:
            _ty, box = self.resolve(frame, ref)
            return box
        k = ptr_depth(vty)
        d = ptr_depth(pty)
        if d > k + 1:
            raise Undefined("address depth")
        box = vbox
        self.check_alive(box)
        for _ in range(k + 1 - d):
            box = box.v
            self.check_alive(box)
        return box

    # ---- statements
    def call(self, frame, fname, args):
        self.tick()
        f = self.funcs[fname]
        self.trace["calls"] += 1
        scope = {}
        argvals = []
        for (pn, pty, kind), a in zip(f["params"], args):
            if a[0] == "addr":
                argvals.append(("ptr", self.address(frame, pty, a[2])))
            elif kind == "view":
                if a[0] == "read":
                    ty, box = self.resolve(frame, a[2])
                    argvals.append(("view", box))
                else:
                    v = self.eval(frame, a)
                    tmp = self.make_storage(a[1], v)
                    argvals.append(("view", tmp))
            else:
                argvals.append(("val", self.eval(frame, a)))
        to_kill = []
        for (pn, pty, kind), (ak, av) in zip(f["params"], argvals):
            if ak == "val":
                box = self.make_storage(pty, av)
                to_kill.append((pty, box))
                scope[pn] = (pty, box)
            elif ak == "view":
                if pty[0] == "slice":
                    holder = Box(av)
                    scope[pn] = (pty, holder)
                else:
                    scope[pn] = (pty, av)
            else:
                holder = Box(av)
                scope[pn] = (pty, holder)
        newframe = [scope]
        try:
            self.exec_block(newframe, f["body"], function_level=True)
        except Goto as g:
            if g.label != "return":
                raise Undefined("goto escaped function: " + g.label)
        result = None
        if f["ret_expr"] is not None:
            result = self.eval(newframe, f["ret_expr"])
        for ty, box in to_kill:
            self.kill(ty, box)
        for _n, (ty, box) in scope.items():
            pass
        self._kill_scope(newframe[0], f)
        return result

    def _kill_scope(self, scope, f=None):
        params = {pn: kind for pn, _t, kind in f["params"]} if f else {}
        for n, (ty, box) in scope.items():
            if n in params and params[n] != "val":
                continue   # aliases of caller objects
            if ty[0] in ("ptr", "slice", "sliceptr"):
                box.alive = False
            else:
                self.kill(ty, box)

    def exec_block(self, frame, stmts, function_level=False):
        """Executes a statement list in a new scope (unless function_level: the scope is frame[-1])."""
        while True:  # `loop;` restarts the block
            if not function_level:
                frame.append({})
            restart = False
            try:
                i = 0
                n = len(stmts)
                while i < n:
                    st = stmts[i]
                    try:
                        if st[0] == "loop":
                            self.trace["loop_iters"] += 1
                            self.tick()
                            restart = True
                            break
                        self.exec_stmt(frame, st)
                        i += 1
                    except Goto as g:
                        # a label later in this block?
                        j = None
                        for q in range(i + 1, n):
                            if stmts[q][0] == "label" and stmts[q][1] == g.label:
                                j = q
                                break
                        if j is None:
                            raise
                        self.trace["gotos"] += 1
                        i = j + 1
            finally:
                if not function_level:
                    scope = frame.pop()
                    self._kill_scope(scope)
            if not restart:
                return
            if function_level:
                raise Undefined("loop at function level")

    def exec_stmt(self, frame, st):
        self.tick()
        k = st[0]
        if k == "var":
            _, name, ty, init = st
            if ty is None:
                ty = init[1]
            if init is None:
                box = self.make_storage(ty)
            elif init[0] == "addr":
                box = Box(self.address(frame, ty, init[2]))
            else:
                box = self.make_storage(ty, self.eval(frame, init))
            frame[-1][name] = (ty, box)
        elif k == "assign":
            v = self.eval(frame, st[2])
            ty, box = self.resolve(frame, st[1])
            if ty[0] != "p":
                raise Undefined("aggregate assignment")
            box.v = v
        elif k == "addrassign":
            _, d, pname, addr = st
            vty, vbox = self.lookup(frame, pname)
            kk = ptr_depth(vty)
            box = vbox
            for _ in range(kk - d):
                self.check_alive(box)
                box = box.v
            self.check_alive(box)
            box.v = self.address(frame, addr[1], addr[2])
        elif k == "callstmt":
            self.eval(frame, st[1])
        elif k == "print":
            self.trace["prints"] += 1
            for e in st[1]:
                if e[0] == "str":
                    self.out += e[2]
                else:
                    v = self.eval(frame, e)
                    t = e[1][1]
                    if t == "bool":
                        self.out += b"true" if v else b"false"
                    elif t == "char8":
                        self.out.append(v & 0xFF)
                    else:
                        self.out += str(v).encode()
        elif k == "block":
            self.exec_block(frame, st[1])
        elif k == "if":
            _, c, then, els = st
            if self.compare(frame, c):
                self.exec_branch(frame, then)
            elif els is not None:
                if els[0] == "if":
                    self.exec_stmt(frame, els)
                else:
                    self.exec_branch(frame, els)
        elif k == "goto":
            raise Goto(st[1])
        elif k == "label":
            pass
        elif k == "observe_pre":
            pass
        else:
            raise ValueError(st)

    def exec_branch(self, frame, b):
        if b[0] == "goto":
            raise Goto(b[1])
        self.exec_block(frame, b[1])

    # ---- entry
    def run(self):
        """Returns (stdout bytes, exit status)."""
        r = self.call([{}], "main", [])
        status = wrap("u8", r if r is not None else 0)
        return bytes(self.out), status


def run_program(prog, step_limit=20000):
    """(stdout, status, trace) or raises Undefined."""
    it = Interp(prog, step_limit)
    try:
        out, status = it.run()
    except RecursionError:
        raise Undefined("recursion limit")
    return out, status, it.trace
