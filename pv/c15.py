"""C15 - the second-generation front end is total and memory-safe on any bytes.

Crash/totality monitor: `delta_front` (lex -> errors -> parse -> errors -> XML -> header -> XML, exactly as
compile_to_ir_using_delta) is run in isolated workers on random bytes, mutated corpus (invalid UTF-8, NUL), token
soup, exhaustive short token sequences, nesting / size / density stress and generated well-formed modules.
Acceptance monitor: generated well-formed modules must be accepted, inputs with an injected invalid lexeme rejected.
Memory-safety monitors: the same operations under Miri (tools/delta-harness) and AddressSanitizer (thorough)."""
import json
import os
import subprocess

from . import common, gen_mutate
from .common import HELD, VIOLATED, INCONCLUSIVE

PROP = "C15"
MAX_BYTES = 256 * 1024


def request(data, want_xml=False):
    return {"op": "delta_front", "hex": data.hex(), "xml": want_xml, "tokens": False}


def classify(data, build="chk", timeout=60):
    kind, r = common.call(request(data), build=build, timeout=timeout)
    if kind == "crash":
        return r.kind, r.signature(), r.to_json(), None
    if kind == "panic":
        return "panic", common.panic_signature(r), r, None
    return "answer", None, None, r


def run_case(case):
    data = case["data"]
    if isinstance(data, str):
        data = data.encode("utf-8")
    if len(data) > MAX_BYTES:
        return {"verdict": INCONCLUSIVE, "detail": "generator exceeded 256 KiB"}
    build = case.get("build", "chk")
    state, sig, detail, r = classify(data, build)
    cov = {"kind:" + case["kind"]: 1, "bytes": len(data), "build:" + build: 1}
    replay = {"hex": data.hex() if len(data) <= 20000 else None, "kind": case["kind"], "build": build, "meta": case.get("meta"),
              "text": data.decode("utf-8", "replace")[:4000]}
    if state != "answer":
        if state == "stack_overflow" and case.get("construct"):
            sig = "stack_overflow: construct=%s" % case["construct"]
        elif state == "stack_overflow" and case["kind"].startswith("density:"):
            sig = "stack_overflow: %s with %d elements" % (case["kind"], case["meta"]["n"])
        cov["state:" + state] = 1
        return {"verdict": VIOLATED, "sig": sig, "detail": detail, "replay": replay, "cov": cov}
    stage = r.get("stage")
    codes = sorted(set(e["code"] for e in r.get("errors", [])))
    cov["stage:" + str(stage)] = 1
    cov["tokens"] = r.get("n_tokens", 0)
    expect = case.get("expect")
    if expect == "accept" and stage != "done":
        # resource limits are the only legitimate reason: E102 / E103
        limit = (r.get("n_bytes", 0) > (1 << 31)) or bool(set(codes) & {102, 103})
        if not limit:
            return {"verdict": VIOLATED, "sig": "well-formed module rejected by the second-generation front end: %s at stage %s (%s)"
                    % (codes, stage, case.get("shape", "?")), "detail": (r.get("errors") or [])[:3], "replay": replay, "cov": cov}
    if expect == "reject_390" and (stage == "done" or 390 not in codes):
        return {"verdict": VIOLATED, "sig": "reference beyond the documented limit of 127 is %s (%s)" %
                ("accepted" if stage == "done" else "rejected with %s only" % codes, case["kind"]),
                "detail": case.get("meta"), "replay": replay, "cov": cov}
    if expect == "reject_lex" and stage != "lex":
        return {"verdict": VIOLATED, "sig": "input with an invalid lexeme is not rejected by the lexer (stage %s)" % stage,
                "detail": case.get("meta"), "replay": replay, "cov": cov}
    # the token limit is max(len / 2, 65536): it cannot be exceeded by fewer than 65536 bytes
    if (103 in codes and len(data) < 65536) or (102 in codes and len(data) <= (1 << 31)):
        return {"verdict": VIOLATED, "sig": "resource limit reported although no limit is exceeded", "detail": r.get("errors")[:2],
                "replay": replay, "cov": cov}
    out = {"verdict": HELD, "cov": cov, "nt": "%s|%s|%s" % (case["kind"], stage, codes[:3])}
    if case.get("want_sample"):
        out["sample"] = {"kind": case["kind"], "head": data[:120].decode("utf-8", "replace"), "stage": stage, "codes": codes}
    return out


NEST = ["paren", "block", "if", "elseif", "ptrtype", "arrtype", "addr", "member", "index", "args", "unary", "array_lit",
        "struct_lit", "binary_left", "binary_right", "cast_chain"]


def density_shapes(n):
    """Shapes that stress the pre-sizing heuristics (nodes per token, token density)."""
    ids = ", ".join("a" for _ in range(n))
    return {
        "identifier_args": "fn main()\n{\n\tf(%s);\n}\n" % ids,
        "identifier_array": "fn main()\n{\n\tvar x = [%s];\n}\n" % ids,
        "identifier_members": "fn main()\n{\n\tvar x = S { %s };\n}\n" % ids,
        "single_char_tokens": "fn main()\n{\n\tvar x = " + "(" * (n // 2) + "1" + ")" * (n // 2) + ";\n}\n",
        "dense_ops": "fn main()\n{\n\tvar x = 1" + "+1" * n + ";\n}\n",
        "statements": "fn main()\n{\n" + "\ta:\n" * n + "}\n",
        "empty_blocks": "fn main()\n{\n" + "{}" * n + "\n}\n",
        "params": "fn f(" + ", ".join("a: i32" for _ in range(n)) + ");\n",
        "struct_members": "struct S\n{\n" + "".join("\tm: i32,\n" for _ in range(n)) + "}\n",
        "struct_members_no_trailing_comma": "struct S\n{\n" + ",\n".join("\tm: i32" for _ in range(max(1, min(n, 50)))) + "\n}\n",
        "decls": "".join("const C: i32 = 1;\n" for _ in range(n)),
        "reference_steps": "fn main()\n{\n\tvar y = x" + ".a[0]" * (n // 2) + ";\n}\n",
        "amp_chain": "fn main()\n{\n\tvar y = " + "&" * n + "x;\n}\n",
        "amp_target": "fn main()\n{\n\t" + "&" * n + "x = 1;\n}\n",
        "amp_length": "fn main()\n{\n\tvar y = |" + "&" * n + "x|;\n}\n",
        "strings": "fn main()\n{\n\tvar y = " + " ".join('"s"' for _ in range(n)) + ";\n}\n",
        "literals": "const T: [%d]i32 = [%s];\n" % (n, ", ".join(("%d" % (k % 10), "'a'", "true", "0x1Fu8")[k % 4] for k in range(n))),
        "literal_statements": "fn main()\n{\n\tvar x = 0;\n" + "\tx = x + 1;\n" * n + "}\n",
    }


def cases(tier, seed):
    rng = common.rng_for(seed, PROP)
    quick = tier == "quick"
    corpus = gen_mutate.corpus()
    # corpus as is (valid samples must be accepted by lexer+parser)
    for j, (p, t) in enumerate(corpus):
        yield {"kind": "corpus", "data": t, "want_sample": j == 0}
    # random bytes
    for i in range(1500 if quick else 100000):
        n = rng.choice([1, 2, 3, 8, 32, 200, 2000])
        mode = rng.random()
        if mode < 0.4:
            data = bytes(rng.randrange(256) for _ in range(n))
        elif mode < 0.7:
            data = bytes(rng.choice(b" \t\n\r(){}[]<>|&^!+-*/%:;.,=\"'\\_09azAZ\x00\x80\xff") for _ in range(n))
        else:
            data = bytes(rng.randrange(32, 127) for _ in range(n))
        yield {"kind": "random_bytes", "data": data}
    # mutated corpus incl. invalid UTF-8 and NUL
    for i in range(3000 if quick else 300000):
        p, t = rng.choice(corpus)
        k = 1 if rng.random() < 0.7 else 2
        ops = []
        for _ in range(k):
            op, t = gen_mutate.mutate(rng, t)
            ops.append(op)
        data = t.encode("utf-8")
        if rng.random() < 0.15 and data:
            pos = rng.randrange(len(data))
            data = data[:pos] + bytes([rng.choice([0x00, 0x80, 0xC0, 0xFF, 0xE2, 0xF0])]) + data[pos:]
        yield {"kind": "mutant:" + ops[0], "data": data, "meta": ops}
    # token soup, exhaustive short sequences
    for i in range(500 if quick else 60000):
        yield {"kind": "soup", "data": gen_mutate.token_soup(rng, rng.choice([3, 8, 20, 60, 200]))}
    plan = [(gen_mutate.SEQ_ALPHABET, 1), (gen_mutate.SEQ_ALPHABET_SMALL, 2)] if quick else \
           [(gen_mutate.SEQ_ALPHABET, 2), (gen_mutate.SEQ_ALPHABET_SMALL, 3)]
    for alphabet, n in plan:
        for k in range(1, n + 1):
            for seq in gen_mutate.all_sequences(alphabet, k):
                body = " ".join(seq)
                for ctx, (pre, post) in gen_mutate.CONTEXTS.items():
                    yield {"kind": "seq%d_%s" % (k, ctx), "data": pre + body + post}
    # nesting stress (chk up to 32, release up to 256)
    for construct in NEST:
        for d in (1, 2, 8, 32):
            yield {"kind": "nest", "construct": construct, "data": gen_mutate.nesting(construct, d), "meta": {"depth": d}}
        for d in (64, 127, 128, 129, 200, 256):
            yield {"kind": "nest", "construct": construct, "build": "rel", "data": gen_mutate.nesting(construct, d), "meta": {"depth": d}}
    # density / size stress
    for n in ([2, 10, 40, 200] if quick else [2, 10, 40, 200, 1000, 10000, 50000]):
        for shape, text in density_shapes(n).items():
            if len(text) > MAX_BYTES:
                continue
            # references are limited to 127 address markers / steps (E390): beyond that the shape is not well-formed
            limited = shape in ("amp_chain", "amp_target", "amp_length", "reference_steps") and n > 120
            yield {"kind": "density:" + shape, "build": "rel" if n > 200 else "chk", "data": text, "meta": {"n": n},
                   "expect": None if limited else "accept", "shape": shape + ("" if n <= 200 else ":large")}
    # long lists and operator chains (the dumps must walk them without one stack frame per element)
    if quick:
        for shape, n in (("statements", 12000), ("identifier_array", 12000), ("dense_ops", 12000), ("params", 8000), ("decls", 6000)):
            text = density_shapes(n)[shape]
            yield {"kind": "density:" + shape, "build": "rel", "data": text, "meta": {"n": n}, "expect": "accept",
                   "shape": shape + ":large"}
    # literal-dense modules well under 64 KiB (the payload table of the lexer is pre-sized from the source length)
    for n in ([1100, 3000] if quick else [1023, 1024, 1025, 1100, 2000, 3000, 6000]):
        for shape in ("literals", "literal_statements", "dense_ops"):
            text = density_shapes(n)[shape]
            if len(text) < 65536:
                yield {"kind": "density:" + shape, "build": "rel", "data": text, "meta": {"n": n}, "expect": "accept",
                       "shape": shape + ":literal-dense"}
    # the documented limit of 127 address markers / access steps per reference (E390), on both sides of every wrap-around
    # of a narrow counter
    for n in (1, 126, 127, 128, 129, 200, 254, 255, 256, 257, 300, 383, 384, 511, 512, 513, 1000, 1024, 4096):
        for shape in ("amp_chain", "amp_target", "amp_length", "reference_steps"):
            units = n
            text = density_shapes(units)[shape]
            for build in ("chk", "rel"):
                yield {"kind": "limit:" + shape, "build": build, "data": text, "meta": {"n": n},
                       "expect": "accept" if n <= 127 else "reject_390", "shape": "%s:%d" % (shape, n)}
    # the token limit itself (65536 for sources up to 128 KiB): modules of exactly T tokens for every T around the limit, complete
    # or cut off inside their last declaration (error recovery then runs at the very end of a full token buffer)
    tails = [("complete", "", 0), ("fn_name", "fn f", 2), ("fn_paren", "fn f(", 3), ("fn_parens", "fn f()", 4), ("fn_body", "fn f()\n{", 5),
             ("fn_stmt", "fn f()\n{\n\tvar x =", 8), ("struct_open", "struct S\n{", 3), ("struct_member", "struct S\n{\n\tm:", 5),
             ("const_eq", "const X: i32 =", 5), ("import", "import", 1), ("pub", "pub", 1), ("stray", ")", 1)]
    for total in (range(65531, 65541) if quick else range(65500, 65560)):
        for tname, tail, ttok in tails:
            body = total - ttok
            # 5 a + 7 b = body with 0 <= b < 5
            b = next(k for k in range(5) if (body - 7 * k) % 5 == 0)
            text = "fn a();\n" * ((body - 7 * b) // 5) + "const C: i32 = 1;\n" * b + tail
            for build in ("chk", "rel"):
                yield {"kind": "token_limit:" + tname, "build": build, "data": text, "meta": {"tokens": total, "tail": tname}}
    # generated well-formed modules of every statement / expression density must be accepted
    from . import gen_syntax
    for i in range(300 if quick else 20000):
        g_rng = common.rng_for(seed, PROP, "g2", i)
        yield {"kind": "g2", "data": gen_syntax.module_text(g_rng, size=g_rng.choice([1, 3, 8, 20])), "expect": "accept",
               "shape": "generated module"}
    # injected invalid lexemes
    for i in range(300 if quick else 20000):
        p, t = rng.choice(corpus)
        toks = gen_mutate.tokenize(t)
        gaps = [k for k, x in enumerate(toks) if x.strip() == "" and "\n" not in x]
        if not gaps:
            continue
        k = rng.choice(gaps)
        bad = rng.choice(["@", "#", "$", "~", "`", "?", "\x01", "\x7f", "12q", "0x1g", "'ab'", '"\\q"', '"a\x7fb"', '"\x07"', "'\x7f'", '"\\u{D800}"', '"\\u{DFFF}"', '"\\u{dabc}"',
                          '"tab\there"', '"\\u{0000041}"', '"\\x4"'])
        toks.insert(k, " " + bad + " ")
        yield {"kind": "invalid_lexeme", "data": "".join(toks), "expect": "reject_lex", "meta": bad}


def replay_file(path):
    with open(path) as f:
        data = json.load(f)
    rp = data["replay"]
    if not rp.get("hex"):
        print("(input too large to be stored; re-run ./check C15)")
        return 0
    common.ensure_worker(rp.get("build", "chk"))
    state, sig, detail, r = classify(bytes.fromhex(rp["hex"]), rp.get("build", "chk"))
    print(state, sig, (r or {}).get("stage"), [e["code"] for e in (r or {}).get("errors", [])][:5])
    if state != "answer":
        print("VIOLATION property=%s replay=%s" % (PROP, path))
        return 1
    print("replay: front end answers on this input now (re-run ./check C15 for acceptance monitors)")
    return 0


def main(tier, seed, replay=None):
    if replay:
        return replay_file(replay)
    common.ensure_worker("chk")
    common.ensure_worker("rel")
    run = common.Run(PROP, tier, seed)
    for r in common.run_sharded(run_case, cases(tier, seed)):
        run.feed(r)
    extra = {}
    try:
        from . import c15_sanitizers
        extra = c15_sanitizers.run(run, tier, seed)
    except ImportError:
        pass
    run.assumptions = [
        "inputs <= 256 KiB; 'terminates' is observed in the bounded form (60 s, retried alone with 240 s)",
        "dev-profile worker with debug assertions and overflow checks for everything up to nesting 32 / 200 elements, release worker for deeper nesting and larger sizes",
        "XML dumps are requested only for UTF-8 inputs (the API takes &str)",
    ]
    return run.finish(
        rule="each case = one byte string pushed through lexer, parser, header extraction and the XML dumps in an isolated worker; "
             "distinct_nontrivial = distinct (workload kind, final stage, first error codes)",
        coverage_extra=extra, min_evaluations=1000)
