"""Reference rules written from docs/features.md, docs/errors.md and the property texts.
They work on the G1 statement tuples (see gen_prog.py) and share no code with penne.

C04: label scoping (forward / outward gotos, clashing labels)
C05: variable scoping (E402, E422, E482) plus an independent path-based definite-declaration analysis
C06: placement of `loop` and of if-branches, lint L1800
"""


# ---------------------------------------------------------------------------
# helpers over statement lists


def sub_blocks(st):
    """Statement lists nested directly in a statement (braced blocks, if/else branches)."""
    k = st[0]
    if k == "block":
        return [st[1]]
    if k == "if":
        out = []
        for br in (st[2], st[3]):
            if br is None:
                continue
            if br[0] == "block":
                out.append(br[1])
            elif br[0] == "if":
                out.extend(sub_blocks(br))
            elif br[0] == "nakedblock":   # ill-formed branch used by C06 only
                out.append(br[1])
        return out
    return []


def gotos_of(st):
    """Labels jumped to by a statement *at the level of its own block* (goto; if .. goto; else goto)."""
    k = st[0]
    if k == "goto":
        return [st[1]]
    if k == "if":
        out = []
        for br in (st[2], st[3]):
            if br is None:
                continue
            if br[0] == "goto":
                out.append(br[1])
            elif br[0] == "if":
                out.extend(gotos_of(br))
        return out
    return []


# ---------------------------------------------------------------------------
# C04


def goto_model(body, has_return_label=False):
    """Returns the set of expected codes among {400, 420} for one function body.

    A goto is legal iff a label of that name occurs later in the same block or later in an
    enclosing block.  A label clashes iff another label of that name is in the same block, or
    occurs later in an enclosing block."""
    codes = set()

    def walk(stmts, later_outer):
        # later_outer: list of label-name sets, one per enclosing block: labels after the enclosing statement
        labels_here = [st[1] for st in stmts if st[0] == "label"]
        for i, st in enumerate(stmts):
            later_here = set(s[1] for s in stmts[i + 1:] if s[0] == "label")
            if st[0] == "label":
                same_block_other = labels_here.count(st[1]) > 1
                later_enclosing = any(st[1] in s for s in later_outer)
                if same_block_other or later_enclosing:
                    codes.add(420)
            for lbl in gotos_of(st):
                if lbl not in later_here and not any(lbl in s for s in later_outer):
                    codes.add(400)
            for sub in sub_blocks(st):
                walk(sub, later_outer + [later_here])

    outer = [{"return"}] if has_return_label else []
    # the function body itself is the outermost block; `return:` (if any) is its last label
    stmts = list(body) + ([("label", "return")] if has_return_label else [])
    walk(stmts, [])
    return codes


# ---------------------------------------------------------------------------
# C05


def uses_of_expr(e, out):
    if e is None:
        return
    k = e[0]
    if k == "read":
        out.append(e[2][0])
        for st in e[2][1]:
            if st[0] == "i":
                uses_of_expr(st[1], out)
    elif k in ("bin",):
        uses_of_expr(e[3], out)
        uses_of_expr(e[4], out)
    elif k == "un":
        uses_of_expr(e[3], out)
    elif k in ("cast", "paren", "cast_lit"):
        uses_of_expr(e[2], out)
    elif k == "call":
        for a in e[3]:
            uses_of_expr(a, out)
    elif k == "addr":
        out.append(e[2][0])
    elif k == "len":
        out.append(e[2][0])


def uses_of_stmt(st):
    """Variable names used by the statement itself (not by nested blocks)."""
    out = []
    k = st[0]
    if k == "var":
        uses_of_expr(st[3], out)
    elif k == "assign":
        out.append(st[1][0])
        uses_of_expr(st[2], out)
    elif k == "if":
        c = st[1]
        uses_of_expr(c[1], out)
        uses_of_expr(c[2], out)
        if st[3] is not None and st[3][0] == "if":
            out.extend(uses_of_stmt(st[3]))
    elif k == "print":
        for e in st[1]:
            uses_of_expr(e, out)
    elif k == "callstmt":
        uses_of_expr(st[1], out)
    return out


def variable_model(body, params=(), consts=(), ret_expr=None, detailed=False):
    """Lexical rules from docs/errors.md. Returns the set of expected codes among {402, 422, 482}
    (detailed=True: list of (textual position, code, variable name) instead).

    E402: a use with no textually earlier declaration in the same or an enclosing scope.
    E422: a `var` reusing a name visible at that point (variable, parameter, constant).
    E482: a goto g, its label L, a variable v declared in L's block between the statement
          containing g and L, and a use of v after L within v's scope."""
    found = []
    has_ret = ret_expr is not None
    stmts0 = list(body) + ([("label", "return"), ("retexpr", ret_expr)] if has_ret else [])
    counter = [0]

    def stmt_uses(st):
        if st[0] == "retexpr":
            o = []
            uses_of_expr(st[1], o)
            return o
        return uses_of_stmt(st)

    def uses_after(stmts, start, pos0):
        """[(position, name)] of uses anywhere (also nested) in stmts[start:]; positions are textual."""
        out = []
        pos = [pos0]

        def rec(sts):
            for st in sts:
                pos[0] += 1
                for u in stmt_uses(st):
                    out.append((pos[0], u))
                for sub in sub_blocks(st):
                    rec(sub)
        rec(stmts[start:])
        return out

    def contains_goto(st, lbl):
        if lbl in gotos_of(st):
            return True
        return any(contains_goto(s, lbl) for sub in sub_blocks(st) for s in sub)

    def walk(stmts, visible):
        visible = set(visible)
        declared_here = {}
        for i, st in enumerate(stmts):
            counter[0] += 1
            here = counter[0]
            for u in stmt_uses(st):
                if u not in visible:
                    found.append((here, 402, u))
            if st[0] == "var":
                if st[1] in visible:
                    found.append((here, 422, st[1]))
                visible.add(st[1])
                declared_here[st[1]] = i
            if st[0] == "label":
                lbl = st[1]
                for g in range(i):
                    if contains_goto(stmts[g], lbl) and not _shadowed(stmts[g], lbl):
                        skipped = [v for v, di in declared_here.items() if g < di < i]
                        if skipped:
                            for upos, u in uses_after(stmts, i + 1, here):
                                if u in skipped:
                                    found.append((upos, 482, u))
            for sub in sub_blocks(st):
                walk(sub, visible)

    walk(stmts0, set(params) | set(consts))
    if detailed:
        return sorted(set(found))
    return set(c for _p, c, _n in found)


def first_codes_per_name(found):
    """The compiler poisons an identifier after its first diagnostic, so only the textually first
    violation per variable name is *required*; the others are allowed."""
    first = {}
    for pos, code, name in sorted(found):
        if name not in first:
            first[name] = code
    return set(first.values())


def _shadowed(st, lbl):
    """True if every goto lbl inside st is bound to a label inside st itself (then it does not reach out)."""
    def reaches_out(stmts, later_outer_has):
        for i, s in enumerate(stmts):
            later_here = any(x[0] == "label" and x[1] == lbl for x in stmts[i + 1:])
            if lbl in gotos_of(s) and not later_here and not later_outer_has:
                return True
            for sub in sub_blocks(s):
                if reaches_out(sub, later_here or later_outer_has):
                    return True
        return False
    if lbl in gotos_of(st):
        return False
    return not any(reaches_out(sub, False) for sub in sub_blocks(st))


def definitely_declared(body, params=(), consts=(), ret_expr=None):
    """Path-based soundness monitor, independent of the lexical rule: builds the control-flow graph
    (every branch feasible, `loop` back edge, each goto bound to the nearest later label outward) and
    checks that on *every* path each use is preceded by the declaration lexically visible at the use.
    Returns a list of (variable, reason)."""
    import collections
    kinds = []
    succ = []

    def new(kind, payload=None):
        kinds.append((kind, payload))
        succ.append([])
        return len(kinds) - 1

    def uses_e(e):
        o = []
        uses_of_expr(e, o)
        return o

    def build(stmts, follow, outer_labels, env):
        """Entry node of the statement list; follow = node reached when falling off its end."""
        head = new("nop")
        # label nodes first, so that forward gotos can bind to them
        label_node = {}
        for i, st in enumerate(stmts):
            if st[0] == "label":
                label_node[i] = new("nop")

        def later_labels(i):
            d = {}
            for j in range(len(stmts) - 1, i, -1):
                if stmts[j][0] == "label":
                    d[stmts[j][1]] = label_node[j]
            return d

        def bind(lbl, i):
            d = later_labels(i)
            if lbl in d:
                return d[lbl]
            for o in outer_labels:
                if lbl in o:
                    return o[lbl]
            return None

        envs = []
        cur = dict(env)
        for st in stmts:
            envs.append(dict(cur))
            if st[0] == "var":
                cur[st[1]] = id(st)
        nxt = follow
        for i in range(len(stmts) - 1, -1, -1):
            st = stmts[i]
            k = st[0]
            inner_outer = [later_labels(i)] + outer_labels
            if k == "label":
                n = label_node[i]
                succ[n].append(nxt)
            elif k == "goto":
                n = new("nop")
                t = bind(st[1], i)
                if t is not None:
                    succ[n].append(t)
            elif k == "loop":
                n = new("nop")
                succ[n].append(head)
            elif k == "var":
                n = new("decl", (id(st), uses_of_stmt(st), envs[i]))
                succ[n].append(nxt)
            elif k == "block":
                n = build(st[1], nxt, inner_outer, envs[i])
            elif k == "if":
                n = build_if(st, nxt, i, bind, inner_outer, envs[i])
            elif k == "retexpr":
                n = new("use", (uses_e(st[1]), envs[i]))
                succ[n].append(nxt)
            else:
                n = new("use", (uses_of_stmt(st), envs[i]))
                succ[n].append(nxt)
            nxt = n
        succ[head].append(nxt)
        return head

    def build_if(st, nxt, i, bind, inner_outer, env):
        c = st[1]
        n = new("use", (uses_e(c[1]) + uses_e(c[2]), env))
        for br in (st[2], st[3]):
            if br is None:
                succ[n].append(nxt)
            elif br[0] == "goto":
                t = bind(br[1], i)
                if t is not None:
                    succ[n].append(t)
            elif br[0] == "block":
                succ[n].append(build(br[1], nxt, inner_outer, env))
            elif br[0] == "if":
                succ[n].append(build_if(br, nxt, i, bind, inner_outer, env))
        return n

    exit_node = new("nop")
    stmts = list(body) + ([("label", "return"), ("retexpr", ret_expr)] if ret_expr is not None else [])
    base_env = {n: "outer" for n in list(params) + list(consts)}
    entry = build(stmts, exit_node, [], base_env)

    IN = {entry: frozenset()}
    work = collections.deque([entry])
    while work:
        n = work.popleft()
        kind, payload = kinds[n]
        out = IN[n]
        if kind == "decl":
            out = out | {payload[0]}
        for t in succ[n]:
            if t not in IN:
                IN[t] = out
                work.append(t)
            else:
                m = IN[t] & out
                if m != IN[t]:
                    IN[t] = m
                    work.append(t)
    problems = []
    for n, (kind, payload) in enumerate(kinds):
        if n not in IN or kind == "nop":
            continue
        uses, env = (payload[1], payload[2]) if kind == "decl" else payload
        for u in uses:
            d = env.get(u)
            if d is None:
                problems.append((u, "no visible declaration"))
            elif d != "outer" and d not in IN[n]:
                problems.append((u, "a path reaches this use without passing the declaration"))
    return problems


# ---------------------------------------------------------------------------
# C06


def placement_model(body):
    """Returns (set of error codes among {800, 801, 840}, number of L1800 lints expected if accepted).

    E801: `loop` directly in a function body.  E800: `loop` in a braced block but not its last statement.
    E840: a branch of an `if` that is neither `goto` nor a braced block (else may also be an `if`).
    L1800: once per braced *branch* block whose first statement is `loop`."""
    codes = set()
    lints = [0]

    def walk(stmts, in_function_body):
        for i, st in enumerate(stmts):
            k = st[0]
            if k == "loop":
                if in_function_body:
                    codes.add(801)
                elif i != len(stmts) - 1:
                    codes.add(800)
            elif k == "block":
                walk(st[1], False)
            elif k == "if":
                walk_if(st)

    def walk_if(st):
        for which, br in (("then", st[2]), ("else", st[3])):
            if br is None:
                continue
            k = br[0]
            if k == "goto":
                continue
            if k == "block":
                if br[1] and br[1][0][0] == "loop":
                    lints[0] += 1
                walk(br[1], False)
            elif k == "if" and which == "else":
                walk_if(br)
            else:
                # a naked branch is rejected as a whole; what it contains is not judged separately
                codes.add(840)

    walk(body, True)
    return codes, lints[0]
