"""G2: generator of syntactic modules (they need not type-check) that owns its syntax tree ("N-form"),
printer with random layout, and converters from the second-generation XML dump and from the
first-generation AST (worker JSON) into the same N-form.

N-form (tuples):
  declarations: ("const", name, flags, type, expr) | ("fn", name, flags, [(pname, type)], rettype, body|None)
                | ("struct", name, flags, size_in_bytes|-1, [(mname, type)]) | ("import", path, flags)
      body = (statements, return_expr|None);  flags = tuple of sorted names ("External", "Public")
  types: ("prim", "Int32") | ("named", n) | ("array", n, T) | ("arrayn", name, T) | ("slice", T) | ("endless", T)
         | ("arraylike", T) | ("ptr", T) | ("view", T)
  statements: ("var", name, type|None, expr|None) | ("assign", ref, expr) | ("call", name, builtin?, args) | ("loop",)
              | ("goto", l) | ("label", l) | ("if", (op, l, r), then, else|None) | ("block", stmts)
  expressions: ("bin", op, l, r) | ("un", op, e) | ("bool", b) | ("char", v) | ("int", v, suffix|None) | ("str", bytes)
               | ("arraylit", elems) | ("structlit", name, [(member, expr)]) | ("paren", e) | ("deref", ref)
               | ("bitcast", e) | ("typecast", e, T) | ("len", ref) | ("sizeof", T) | ("fcall", name, builtin?, args)
  ref = (address_depth, base, steps) ; steps: ("m", name) | ("i", expr)
"""
import re

PRIM_KW = {"i8": "Int8", "i16": "Int16", "i32": "Int32", "i64": "Int64", "i128": "Int128", "u8": "Uint8", "u16": "Uint16",
           "u32": "Uint32", "u64": "Uint64", "u128": "Uint128", "usize": "Usize", "char8": "Char8", "bool": "Bool", "void": "Void"}
KW_OF = {v: k for k, v in PRIM_KW.items()}
INT_SUFFIXES = ["i8", "i16", "i32", "i64", "i128", "u8", "u16", "u32", "u64", "u128", "usize"]
ARITH = {"+": "Add", "-": "Subtract"}
MULT = {"*": "Multiply", "/": "Divide", "%": "Modulo"}
BITW = {"&": "BitwiseAnd", "|": "BitwiseOr", "^": "BitwiseXor"}
SHIFT = {"<<": "ShiftLeft", ">>": "ShiftRight"}
OPTEXT = {v: k for d in (ARITH, MULT, BITW, SHIFT) for k, v in d.items()}
CMP = {"==": "Equals", "!=": "DoesNotEqual", "<": "IsLess", ">": "IsGreater", "<=": "IsLE", ">=": "IsGE"}
CMPTEXT = {v: k for k, v in CMP.items()}
BUILTINS = ["print", "abort", "format", "file", "line", "dbg", "panic", "eprint"]
# both sides of every power of two that bounds an integer type
BOUNDARY_INTS = sorted(set(v for b in (7, 8, 15, 16, 31, 32, 63, 64, 127, 128) for v in (2 ** b - 2, 2 ** b - 1, 2 ** b, 2 ** b + 1)
                           if v < 2 ** 128))
RESERVED = {"fn", "var", "const", "if", "goto", "loop", "else", "cast", "as", "import", "pub", "extern", "struct", "word8",
            "word16", "word32", "word64", "word128", "true", "false", "return", "_"} | set(PRIM_KW)
ESC = {10: "\\n", 13: "\\r", 9: "\\t", 92: "\\\\", 39: "\\'", 34: '\\"', 0: "\\0"}


class G2:
    def __init__(self, rng, size=6, depth=3):
        self.r = rng
        self.size = size
        self.depth = depth
        self.cov = {}
        self.n = 0

    def hit(self, k):
        self.cov[k] = self.cov.get(k, 0) + 1

    def name(self, upper=False):
        self.n += 1
        base = self.r.choice(["a", "b", "foo", "x", "value", "i_", "it", "fn_", "u8x", "_q", "returns", "word", "true_"])
        s = "%s_%d" % (base, self.n)
        return s.capitalize() if upper else s

    # ---- types (well-formed according to docs E350: elements must be sized, no views/slices inside compounds)
    def gtype(self, d=None, allow_void=False, pos="top"):
        r = self.r
        d = self.depth if d is None else d
        c = r.random()
        if d <= 0 or c < 0.35:
            self.hit("type:prim")
            pool = [v for v in PRIM_KW.values() if v != "Void"]
            if allow_void and pos == "top":
                pool.append("Void")
            return ("prim", r.choice(pool))
        if c < 0.45:
            self.hit("type:named")
            return ("named", self.name(True))
        kinds = {"top": ["array", "arrayn", "slice", "endless", "arraylike", "ptr", "view"],
                 "elem": ["array", "arrayn", "arraylike", "ptr"],
                 "inner": ["array", "arrayn", "endless", "arraylike", "ptr"]}[pos]
        kind = r.choice(kinds)
        self.hit("type:" + kind)
        if kind in ("ptr", "view"):
            return (kind, self.gtype(d - 1, pos="inner"))
        inner = self.gtype(d - 1, pos="elem")
        if kind == "array":
            return ("array", r.choice([0, 1, 2, 10, 1024]), inner)
        if kind == "arrayn":
            return ("arrayn", self.name().upper(), inner)
        return (kind, inner)

    # ---- expressions (grammar levels)
    def expr(self, d=None):
        r = self.r
        d = self.depth if d is None else d
        c = r.random()
        if d > 0 and c < 0.2:
            op = r.choice(list(BITW.values()))
            n = r.randrange(2, 4)
            e = self.unary(d - 1, no_binary=True)
            for _ in range(n - 1):
                e = ("bin", op, e, self.unary(d - 1))
            self.hit("expr:bitwise_chain")
            return e
        if d > 0 and c < 0.3:
            self.hit("expr:shift")
            return ("bin", r.choice(list(SHIFT.values())), self.unary(d - 1, no_binary=True), self.unary(d - 1))
        e = self.mult(d)
        if d > 0:
            for _ in range(r.choice([0, 0, 1, 1, 2])):
                e = ("bin", r.choice(list(ARITH.values())), e, self.mult(d - 1))
                self.hit("expr:additive")
        return e

    def mult(self, d):
        e = self.singular(d)
        if d > 0:
            for _ in range(self.r.choice([0, 0, 0, 1, 2])):
                e = ("bin", self.r.choice(list(MULT.values())), e, self.singular(d - 1))
                self.hit("expr:multiplicative")
        return e

    def singular(self, d):
        r = self.r
        e = self.unary(d)
        if d > 0 and r.random() < 0.08:
            e = ("bitcast", e)
            self.hit("expr:bitcast")
        if d > 0:
            while r.random() < 0.12:
                e = ("typecast", e, self.gtype(1))
                self.hit("expr:typecast")
        return e

    def unary(self, d, no_binary=False):
        r = self.r
        c = r.random()
        if c < 0.05:
            self.hit("expr:sizeof")
            return ("sizeof", self.gtype(2))
        if c < 0.1:
            self.hit("expr:len")
            return ("len", self.ref(d, r.choice([0, 0, 0, 1, 2])))
        if c < 0.16:
            self.hit("expr:complement")
            return ("un", "BitwiseComplement", self.primary(d))
        if c < 0.24:
            self.hit("expr:negative")
            return ("un", "Negative", self.primary(d, no_negative_fold=True))
        return self.primary(d)

    def primary(self, d, no_negative_fold=False):
        r = self.r
        c = r.random()
        if c < 0.2 or d <= 0:
            return self.literal()
        if c < 0.28:
            self.hit("expr:string")
            return ("str", self.string_bytes())
        if c < 0.38:
            self.hit("expr:call")
            return ("fcall", self.name(), False, [self.expr(d - 1) for _ in range(r.randrange(0, 4))])
        if c < 0.42:
            self.hit("expr:builtin_call")
            return ("fcall", r.choice(BUILTINS), True, [self.expr(d - 1) for _ in range(r.randrange(0, 3))])
        if c < 0.5 and not getattr(self, "no_struct", False):
            self.hit("expr:structlit")
            members = []
            for _ in range(r.randrange(0, 4)):
                m = self.name()
                members.append((m, ("deref", (0, m, [])) if r.random() < 0.25 else self.expr(d - 1)))
            return ("structlit", self.name(True), members)
        if c < 0.72:
            self.hit("expr:deref")
            return ("deref", self.ref(d, 0))
        if c < 0.8:
            self.hit("expr:address")
            return ("deref", self.ref(d, r.choice([1, 1, 2, 3])))
        if c < 0.9:
            self.hit("expr:arraylit")
            return ("arraylit", [self.expr(d - 1) for _ in range(r.randrange(0, 4))])
        self.hit("expr:paren")
        return ("paren", self.expr(d - 1))

    def literal(self):
        r = self.r
        c = r.random()
        if c < 0.1:
            self.hit("lit:bool")
            return ("bool", r.random() < 0.5)
        if c < 0.2:
            self.hit("lit:char")
            return ("char", r.randrange(0, 256))
        v = r.choice([0, 1, 2, 17, 255, 256, 65536, 2 ** 32, 2 ** 64 - 1, 2 ** 127, 2 ** 128 - 1, r.randrange(0, 1 << r.randrange(1, 128)),
                      r.choice(BOUNDARY_INTS)])
        if r.random() < 0.35:
            self.hit("lit:int_suffixed")
            return ("int", v, PRIM_KW[r.choice(INT_SUFFIXES)])
        self.hit("lit:int")
        return ("int", v, None)

    def string_bytes(self):
        r = self.r
        out = b""
        for _ in range(r.randrange(0, 10)):
            c = r.random()
            if c < 0.6:
                out += r.choice("abc xyz09_-+;{}()/|&<>=!.,:%^*#@$~?`[]").encode()
            elif c < 0.8:
                out += bytes([r.choice(list(ESC))])
            elif c < 0.9:
                out += bytes([r.randrange(0, 256)])
            else:
                out += r.choice(["é", "€", "\U0001F600"]).encode()
        # the XML dump trims *all* double quotes at both ends of a string's source: keep quotes inside
        while out.endswith(b'"') or out.startswith(b'"'):
            out = out.strip(b'"')
        return out

    def ref(self, d, address_depth):
        r = self.r
        steps = []
        for _ in range(r.choice([0, 0, 0, 1, 1, 2, 3])):
            if r.random() < 0.5:
                steps.append(("m", self.name()))
                self.hit("step:member")
            else:
                steps.append(("i", self.expr(max(0, d - 1))))
                self.hit("step:element")
        return (address_depth, self.name(), steps)

    # ---- statements
    def statements(self, n, d):
        return [self.statement(d) for _ in range(self.r.randrange(0, n + 1))]

    def statement(self, d):
        r = self.r
        c = r.random()
        if c < 0.2:
            ty = self.gtype(2) if r.random() < 0.6 else None
            ex = self.expr() if r.random() < 0.75 else None
            self.hit("stmt:var:%s%s" % ("typed" if ty else "untyped", "_init" if ex else ""))
            return ("var", self.name(), ty, ex)
        if c < 0.38:
            self.hit("stmt:assign")
            return ("assign", self.ref(2, r.choice([0, 0, 0, 1, 2])), self.expr())
        if c < 0.46:
            self.hit("stmt:call")
            return ("call", self.name(), False, [self.expr(2) for _ in range(r.randrange(0, 4))])
        if c < 0.5:
            self.hit("stmt:builtin_call")
            return ("call", r.choice(BUILTINS), True, [self.expr(2) for _ in range(r.randrange(0, 3))])
        if c < 0.56:
            self.hit("stmt:loop")
            return ("loop",)
        if c < 0.64:
            self.hit("stmt:goto")
            return ("goto", self.name())
        if c < 0.72:
            self.hit("stmt:label")
            return ("label", self.name())
        if c < 0.88 and d > 0:
            return self.if_stmt(d)
        if d > 0:
            self.hit("stmt:block")
            return ("block", self.statements(3, d - 1))
        self.hit("stmt:label")
        return ("label", self.name())

    def if_stmt(self, d, chain=0):
        r = self.r
        # a structure literal cannot appear in a condition (its `{` would open the branch)
        self.no_struct = True
        cmp_ = (r.choice(list(CMP.values())), self.expr(2), self.expr(2))
        self.no_struct = False
        then = self.branch(d)
        c = r.random()
        if c < 0.45:
            els = None
            self.hit("stmt:if")
        elif c < 0.75:
            els = self.branch(d)
            self.hit("stmt:if_else")
        elif chain < 3:
            els = self.if_stmt(d, chain + 1)
            self.hit("stmt:else_if")
        else:
            els = None
        return ("if", cmp_, then, els)

    def branch(self, d):
        if self.r.random() < 0.3:
            self.hit("branch:goto")
            return ("goto", self.name())
        self.hit("branch:block")
        return ("block", self.statements(3, d - 1))

    # ---- declarations
    def flags(self):
        r = self.r
        f = []
        if r.random() < 0.45:
            f.append("Public")
        if r.random() < 0.2:
            f.append("External")
        return tuple(sorted(f))

    def declaration(self, kind=None, public=None):
        r = self.r
        kind = kind or r.choice(["const", "fn", "fn", "fn_head", "struct", "word", "import"])
        fl = self.flags()
        if public is not None:
            fl = tuple(sorted(set(x for x in fl if x != "Public") | ({"Public"} if public else set())))
        self.hit("decl:" + kind + ("|" + "|".join(fl) if fl else ""))
        if kind == "const":
            return ("const", self.name().upper(), fl, self.gtype(2), self.expr())
        if kind in ("fn", "fn_head"):
            params = [(self.name(), self.gtype(2)) for _ in range(r.randrange(0, 4))]
            ret = self.gtype(2) if r.random() < 0.6 else ("prim", "Void")
            if kind == "fn_head":
                return ("fn", self.name(), fl, params, ret, None)
            stmts = self.statements(self.size, self.depth)
            rv = self.expr() if r.random() < 0.6 else None
            return ("fn", self.name(), fl, params, ret, (stmts, rv))
        if kind == "struct":
            if r.random() < 0.15:
                # opaque structure: `struct Name;`
                self.hit("decl:struct_opaque")
                return ("struct", self.name(True), tuple(sorted(set(fl) | {"OpaqueStruct"})), -1, [])
            return ("struct", self.name(True), fl, -1, [(self.name(), self.gtype(2)) for _ in range(r.randrange(0, 5))])
        if kind == "word":
            bits = r.choice([8, 16, 32, 64, 128])
            return ("struct", self.name(True), fl, bits // 8, [(self.name(), self.gtype(1)) for _ in range(r.randrange(0, 4))])
        if kind == "import":
            # `pub import` re-exports (the first-generation tree does not record the flag; see strip_import_flags)
            return ("import", r.choice(["a.pn", "lib/b.pn", "core:text", "vendor:libc/stdlib.pn", "x y.pn", "./a.pn", "././a.pn", "./././lib/b.pn", "../a.pn",
                                        "../../a.pn", "lib/./b.pn", "lib/../a.pn", "lib//b.pn", "/abs/a.pn", "a.pn/", ".", "..", "./", "core:./text",
                                        "vendor:./libc", " a.pn", "a.pn ", "A.PN", "a", "a.pn.pn", "\u00fc.pn"]),
                    ("Public",) if "Public" in fl else ())
        raise ValueError(kind)

    def module(self, ndecl=None):
        n = ndecl if ndecl is not None else self.r.randrange(1, self.size + 1)
        return [self.declaration() for _ in range(n)]


# --------------------------------------------------------------------------
# printer


class Layout:
    def __init__(self, rng, wild=True):
        self.r = rng
        self.wild = wild

    def sp(self):
        if not self.wild:
            return " "
        return self.r.choice([" ", " ", " ", "  ", "\t", "\n\t", " // c\n\t"])

    def opt(self):
        if not self.wild:
            return ""
        return self.r.choice(["", "", "", " ", "\n", " // x\n"])

    def comma_list(self, items, open_, close):
        """both list styles: with and without trailing comma"""
        if not items:
            return open_ + self.opt() + close
        trailing = self.r.random() < 0.4
        s = open_ + self.opt()
        s += ("," + self.sp()).join(items)
        if trailing:
            s += ","
        return s + self.opt() + close


def type_src(t):
    k = t[0]
    if k == "prim":
        return KW_OF[t[1]]
    if k == "named":
        return t[1]
    if k == "array":
        return "[%d]%s" % (t[1], type_src(t[2]))
    if k == "arrayn":
        return "[%s]%s" % (t[1], type_src(t[2]))
    if k == "slice":
        return "[:]" + type_src(t[1])
    if k == "endless":
        return "[..]" + type_src(t[1])
    if k == "arraylike":
        return "[]" + type_src(t[1])
    if k == "ptr":
        return "&" + type_src(t[1])
    if k == "view":
        return "(" + type_src(t[1]) + ")"
    raise ValueError(t)


def escape_bytes(data, quote):
    out = ""
    i = 0
    try:
        text = data.decode("utf-8")
        # keep valid multi-byte characters raw, escape the rest
        for ch in text:
            b = ord(ch)
            if b in ESC:
                out += ESC[b]
            elif 32 <= b < 127:
                out += ch
            elif b >= 128:
                out += ch
            else:
                out += "\\x%02X" % b
        return out
    except UnicodeDecodeError:
        for b in data:
            if b in ESC:
                out += ESC[b]
            elif 32 <= b < 127:
                out += chr(b)
            else:
                out += "\\x%02X" % b
        return out


def split_string(rng, data):
    """Adjacent literal concatenation: split at UTF-8 character boundaries."""
    try:
        text = data.decode("utf-8")
    except UnicodeDecodeError:
        return [data]
    if len(text) < 2 or rng.random() < 0.6:
        return [data]
    cut = rng.randrange(1, len(text))
    return [text[:cut].encode(), text[cut:].encode()]


class Src:
    def __init__(self, rng, wild=True):
        self.l = Layout(rng, wild)
        self.r = rng

    def ref(self, ref):
        depth, base, steps = ref
        s = "&" * depth + base
        for st in steps:
            if st[0] == "m":
                s += "." + st[1]
            else:
                s += "[" + self.expr(st[1]) + "]"
        return s

    def expr(self, e):
        k = e[0]
        if k == "bin":
            return self.expr(e[2]) + " " + OPTEXT[e[1]] + self.l.sp() + self.expr(e[3])
        if k == "un":
            return ("-" if e[1] == "Negative" else "!") + self.expr(e[2])
        if k == "bool":
            return "true" if e[1] else "false"
        if k == "char":
            b = e[1]
            if b in ESC:
                return "'" + ESC[b] + "'"
            if 32 <= b < 127:
                return "'" + chr(b) + "'"
            return "'\\x%02X'" % b
        if k == "int":
            v, suf = e[1], e[2]
            form = self.r.choice(["dec", "dec", "hex", "bin"]) if v < (1 << 64) else self.r.choice(["dec", "hex"])
            body = str(v) if form == "dec" else ("0x%x" % v if form == "hex" else "0b" + bin(v)[2:])
            if self.r.random() < 0.3:
                # digit separators: between digits, and (hex / binary) after the last digit
                head, digits = ("", body) if form == "dec" else (body[:2], body[2:])
                digits = "".join(ch + ("_" if k < len(digits) - 1 and self.r.random() < 0.3 else "") for k, ch in enumerate(digits))
                if form != "dec" and self.r.random() < 0.3:
                    digits += "_"
                body = head + digits
            return body + (KW_OF[suf] if suf else "")
        if k == "str":
            parts = split_string(self.r, e[1])
            return self.l.sp().join('"' + escape_bytes(p, '"') + '"' for p in parts)
        if k == "arraylit":
            return self.l.comma_list([self.expr(x) for x in e[1]], "[", "]")
        if k == "structlit":
            items = []
            for m, x in e[2]:
                if x == ("deref", (0, m, [])) and self.r.random() < 0.7:
                    items.append(m)       # field init shorthand
                else:
                    items.append("%s: %s" % (m, self.expr(x)))
            return e[1] + " " + self.l.comma_list(items, "{", "}")
        if k == "paren":
            return "(" + self.l.opt() + self.expr(e[1]) + self.l.opt() + ")"
        if k == "deref":
            return self.ref(e[1])
        if k == "bitcast":
            return "cast " + self.expr(e[1])
        if k == "typecast":
            return self.expr(e[1]) + " as " + type_src(e[2])
        if k == "len":
            return "|" + self.ref(e[1]) + "|"
        if k == "sizeof":
            return "|:" + type_src(e[1]) + "|"
        if k == "fcall":
            return e[1] + ("!" if e[2] else "") + self.l.comma_list([self.expr(x) for x in e[3]], "(", ")")
        raise ValueError(e)

    def stmt(self, s, ind):
        k = s[0]
        pad = "\t" * ind
        if k == "var":
            t = pad + "var " + s[1]
            if s[2] is not None:
                t += ":" + self.l.sp() + type_src(s[2])
            if s[3] is not None:
                t += " =" + self.l.sp() + self.expr(s[3])
            return t + ";\n"
        if k == "assign":
            return pad + self.ref(s[1]) + " = " + self.expr(s[2]) + ";\n"
        if k == "call":
            return pad + s[1] + ("!" if s[2] else "") + self.l.comma_list([self.expr(x) for x in s[3]], "(", ")") + ";\n"
        if k == "loop":
            return pad + "loop;\n"
        if k == "goto":
            return pad + "goto " + s[1] + ";\n"
        if k == "label":
            return pad + s[1] + ":\n"
        if k == "block":
            return pad + "{\n" + "".join(self.stmt(x, ind + 1) for x in s[1]) + pad + "}\n"
        if k == "if":
            return self.if_(s, ind, "if ")
        raise ValueError(s)

    def if_(self, s, ind, head):
        pad = "\t" * ind
        op, l, r = s[1]
        t = pad + head + self.expr(l) + " " + CMPTEXT[op] + " " + self.expr(r) + "\n"
        t += self.branch(s[2], ind)
        if s[3] is not None:
            if s[3][0] == "if":
                t += self.if_(s[3], ind, "else if ")
            else:
                t += pad + "else\n" + self.branch(s[3], ind)
        return t

    def branch(self, b, ind):
        if b[0] == "goto":
            return "\t" * (ind + 1) + "goto " + b[1] + ";\n"
        return self.stmt(b, ind)

    def decl(self, d, force_private=False, strip_body=False):
        k = d[0]
        if k == "import":
            pub = "pub" + self.l.sp() if (len(d) > 2 and "Public" in d[2] and not force_private) else ""
            return pub + 'import "%s";\n' % d[1]
        flags = d[2]
        prefix = ""
        if "Public" in flags and not force_private:
            prefix += "pub "
        if "External" in flags:
            prefix += "extern "
        if k == "const":
            return prefix + "const %s: %s = %s;\n" % (d[1], type_src(d[3]), self.expr(d[4]))
        if k == "struct":
            kw = "struct" if d[3] < 0 else "word%d" % (d[3] * 8)
            if "OpaqueStruct" in flags:
                return prefix + kw + self.l.sp() + d[1] + self.l.opt() + ";\n"
            members = ["%s: %s" % (m, type_src(t)) for m, t in d[4]]
            return prefix + kw + " " + d[1] + "\n" + self.l.comma_list(members, "{", "}") + "\n"
        if k == "fn":
            params = ["%s: %s" % (p, type_src(t)) for p, t in d[3]]
            t = prefix + "fn " + d[1] + self.l.comma_list(params, "(", ")")
            if d[4] != ("prim", "Void"):
                t += " -> " + type_src(d[4])
            if d[5] is None or strip_body:
                return t + ";\n"
            stmts, rv = d[5]
            t += "\n{\n" + "".join(self.stmt(x, 1) for x in stmts)
            if rv is not None:
                t += "\treturn: " + self.expr(rv) + "\n"
            return t + "}\n"
        raise ValueError(d)

    def module(self, decls):
        return "\n".join(self.decl(d) for d in decls)


def module_text(rng, size=6):
    g = G2(rng, size=size)
    return Src(rng).module(g.module())


# --------------------------------------------------------------------------
# expected header


def strip_import_flags(decls):
    """The first-generation tree does not record `pub` on an import: for comparisons with it."""
    return [("import", d[1], ()) if d[0] == "import" else d for d in decls]


def header_of(decls):
    """Public declarations in order, pub flag cleared, function bodies removed."""
    out = []
    for d in decls:
        if "Public" not in d[2]:
            continue
        flags = tuple(x for x in d[2] if x != "Public")
        if d[0] == "import":
            out.append(("import", d[1], flags))
        elif d[0] == "fn":
            out.append(("fn", d[1], flags, d[3], d[4], None))
        else:
            out.append((d[0], d[1], flags) + tuple(d[3:]))
    return out


# --------------------------------------------------------------------------
# string decoding (reference decoder, from docs/syntax.md and docs/errors.md)


def decode_literal_text(text):
    """Decode the inside of a string literal (without the quotes) to bytes."""
    out = b""
    i = 0
    while i < len(text):
        ch = text[i]
        if ch != "\\":
            out += ch.encode("utf-8")
            i += 1
            continue
        c = text[i + 1]
        i += 2
        if c == "n":
            out += b"\n"
        elif c == "r":
            out += b"\r"
        elif c == "t":
            out += b"\t"
        elif c == "0":
            out += b"\0"
        elif c in "\\'\"":
            out += c.encode()
        elif c == "x":
            out += bytes([int(text[i:i + 2], 16)])
            i += 2
        elif c == "u":
            j = text.index("}", i)
            out += chr(int(text[i + 1:j], 16)).encode("utf-8")
            i = j + 1
        else:
            raise ValueError("bad escape in " + text)
    return out


def unescape_rust_debug(s):
    """Inverse of Rust's {:?} for str (the XML dump prints source slices that way)."""
    out = ""
    i = 0
    while i < len(s):
        ch = s[i]
        if ch != "\\":
            out += ch
            i += 1
            continue
        c = s[i + 1]
        i += 2
        if c == "n":
            out += "\n"
        elif c == "r":
            out += "\r"
        elif c == "t":
            out += "\t"
        elif c == "0":
            out += "\0"
        elif c in "\\'\"":
            out += c
        elif c == "u":
            j = s.index("}", i)
            out += chr(int(s[i + 1:j], 16))
            i = j + 1
        else:
            raise ValueError("bad debug escape " + s)
    return out


# --------------------------------------------------------------------------
# XML -> N-form


class XmlError(Exception):
    pass


TAG = re.compile(r'^<(/?)([A-Za-z]+)((?:\s+[A-Za-z_-]+="(?:[^"\\]|\\.)*")*)\s*(/?)>$')
ATTR = re.compile(r'([A-Za-z_-]+)="((?:[^"\\]|\\.)*)"')


def parse_xml(lines):
    """Well-formedness check and tree building. Returns list of top-level nodes (tag, attrs, children, texts)."""
    root = ("ROOT", {}, [], [])
    stack = [root]
    for line in lines:
        m = TAG.match(line)
        if not m:
            if line.startswith("<"):
                raise XmlError("unparsable element line: " + line[:80])
            stack[-1][3].append(line)     # text line (composite string source)
            continue
        closing, tag, attrs, selfclose = m.group(1), m.group(2), m.group(3), m.group(4)
        if tag == "MALFORMED":
            raise XmlError("MALFORMED node: " + line[:100])
        if closing:
            if stack[-1][0] != tag:
                raise XmlError("mismatched closing element </%s> for <%s>" % (tag, stack[-1][0]))
            stack.pop()
            if not stack:
                raise XmlError("closing element without opening")
            continue
        node = (tag, dict(ATTR.findall(attrs)), [], [])
        stack[-1][2].append(node)
        if not selfclose:
            stack.append(node)
    if len(stack) != 1:
        raise XmlError("unclosed element <%s>" % stack[-1][0])
    return root[2]


def attr_src(node, key):
    return unescape_rust_debug(node[1][key])


def list_children(node, meta):
    for ch in node[2]:
        if ch[0] == "List" and ch[1].get("meta") == meta:
            return ch[2]
    raise XmlError("missing list %s in <%s>" % (meta, node[0]))


def x_type(n):
    t = n[0]
    if t == "SimpleValueType":
        return ("prim", n[1]["type"])
    if t == "CompositeValueType":
        return x_type(n[2][0])
    if t == "ArrayVT":
        return ("array", int(n[1]["length"]), x_type(n[2][0]))
    if t == "ArrayWithNamedLengthVT":
        return ("arrayn", attr_src(n, "identifier"), x_type(n[2][0]))
    if t == "SliceVT":
        return ("slice", x_type(n[2][0]))
    if t == "EndlessArrayVT":
        return ("endless", x_type(n[2][0]))
    if t == "ArraylikeVT":
        return ("arraylike", x_type(n[2][0]))
    if t == "PointerVT":
        return ("ptr", x_type(n[2][0]))
    if t == "ViewVT":
        return ("view", x_type(n[2][0]))
    if t == "UnresolvedStructOrWordVT":
        return ("named", attr_src(n, "src"))
    raise XmlError("unexpected type element <%s>" % t)


def x_ref(n):
    depth = int(n[1]["address_depth"])
    base = attr_src(n, "identifier")
    steps = []
    for st in list_children(n, "steps"):
        if st[0] == "DerefStepMember":
            steps.append(("m", attr_src(st, "identifier")))
        elif st[0] == "DerefStepElement":
            steps.append(("i", x_expr(st[2][0])))
        else:
            raise XmlError("unexpected step <%s>" % st[0])
    return (depth, base, steps)


def x_expr(n):
    t = n[0]
    if t == "Binary":
        return ("bin", n[1]["op"], x_expr(n[2][0]), x_expr(n[2][1]))
    if t == "Unary":
        return ("un", n[1]["op"], x_expr(n[2][0]))
    if t == "BooleanLiteral":
        return ("bool", n[1]["value"] == "1")
    if t == "CharLiteral":
        return ("char", int(n[1]["value"]))
    if t == "UntypedIntegerLiteral":
        return ("int", int(n[1]["value"]), n[1].get("type"))
    if t == "TypedIntegerLiteral":
        return ("int", int(n[1]["value"]), n[1].get("type"))
    if t == "SimpleStringLiteral":
        return ("str", decode_literal_text(attr_src(n, "src")))
    if t == "CompositeStringLiteral":
        raw = unescape_rust_debug(n[3][0][1:-1]) if n[3] else ""
        parts = re.findall(r'"((?:[^"\\]|\\.)*)"', raw)
        return ("str", b"".join(decode_literal_text(p) for p in parts))
    if t == "ArrayLiteral":
        return ("arraylit", [x_expr(c) for c in list_children(n, "elements")])
    if t == "Structural":
        members = []
        for c in list_children(n, "initializers"):
            if c[0] != "IdentifierAndExpression" or len(c[2]) != 1:
                raise XmlError("unexpected initializer <%s> with %d children" % (c[0], len(c[2])))
            members.append((attr_src(c, "src"), x_expr(c[2][0])))
        return ("structlit", attr_src(n, "identifier"), members)
    if t == "Parenthesized":
        return ("paren", x_expr(n[2][0]))
    if t == "Deref":
        return ("deref", x_ref(n))
    if t == "BitCast":
        return ("bitcast", x_expr(n[2][0]))
    if t == "TypeCast":
        return ("typecast", x_expr(n[2][0]), x_type(n[2][1]))
    if t == "LengthOf":
        return ("len", x_ref(n[2][0]))
    if t == "SizeOf":
        return ("sizeof", x_type(n[2][0]))
    if t == "FunctionCall":
        return ("fcall", attr_src(n, "identifier").rstrip("!"), n[1]["is_builtin"] == "true",
                [x_expr(c) for c in list_children(n, "arguments")])
    raise XmlError("unexpected expression element <%s>" % t)


def x_stmt(n):
    t = n[0]
    if t == "VariableDeclaration":
        ty, ex = None, None
        for c in n[2]:
            if c[0].endswith("VT") or c[0] in ("SimpleValueType", "CompositeValueType"):
                ty = x_type(c)
            else:
                ex = x_expr(c)
        return ("var", attr_src(n, "src"), ty, ex)
    if t == "Assignment":
        return ("assign", x_ref(n[2][0]), x_expr(n[2][1]))
    if t == "MethodCall":
        return ("call", attr_src(n, "identifier").rstrip("!"), n[1]["is_builtin"] == "true",
                [x_expr(c) for c in list_children(n, "arguments")])
    if t == "Loop":
        return ("loop",)
    if t == "Goto":
        return ("goto", attr_src(n, "label"))
    if t == "Label":
        return ("label", attr_src(n, "src"))
    if t == "Block":
        return ("block", [x_stmt(c) for c in list_children(n, "statements")])
    if t == "If":
        cmp_ = n[2][0]
        if cmp_[0] != "Comparison":
            raise XmlError("if without comparison")
        c = (cmp_[1]["op"], x_expr(cmp_[2][0]), x_expr(cmp_[2][1]))
        then = None
        els = None
        for ch in n[2][1:]:
            if ch[0] == "Then":
                then = x_stmt(ch[2][0])
            elif ch[0] == "Else":
                els = x_stmt(ch[2][0])
        return ("if", c, then, els)
    raise XmlError("unexpected statement element <%s>" % t)


def x_flags(n):
    f = n[1].get("flags", "")
    return tuple(sorted(x for x in f.split("|") if x))


def x_decl(n):
    t = n[0]
    if t == "ConstantDeclaration":
        # children: expression, then type
        ex, ty = None, None
        for c in n[2]:
            if c[0].endswith("VT") or c[0] in ("SimpleValueType", "CompositeValueType"):
                ty = x_type(c)
            else:
                ex = x_expr(c)
        return ("const", attr_src(n, "identifier"), x_flags(n), ty, ex)
    if t == "FunctionDeclaration":
        params = []
        for p in list_children(n, "parameters"):
            if p[0] != "IdentifierAndType":
                raise XmlError("unexpected parameter element <%s>" % p[0])
            params.append((attr_src(p, "src"), x_type(p[2][0])))
        rest = [c for c in n[2] if c[0] != "List"]
        ret = x_type(rest[0])
        body = None
        if len(rest) > 1:
            b = rest[1]
            if b[0] != "FunctionBody":
                raise XmlError("unexpected <%s> in function" % b[0])
            stmts = [x_stmt(c) for c in list_children(b, "statements")]
            others = [c for c in b[2] if c[0] != "List"]
            body = (stmts, x_expr(others[0]) if others else None)
        return ("fn", attr_src(n, "identifier"), x_flags(n), params, ret, body)
    if t == "StructureDeclaration":
        members = []
        for p in list_children(n, "members"):
            members.append((attr_src(p, "src"), x_type(p[2][0])))
        return ("struct", attr_src(n, "identifier"), x_flags(n), int(n[1]["size-in-bytes"]), members)
    if t == "ImportDeclaration":
        s = n[2][0]
        return ("import", decode_literal_text(attr_src(s, "src")).decode("utf-8", "replace"), x_flags(n))
    raise XmlError("unexpected declaration element <%s>" % t)


def xml_to_nform(lines):
    return [x_decl(n) for n in parse_xml(lines)]


# --------------------------------------------------------------------------
# first-generation AST (worker JSON) -> N-form

A_PRIM = {"void": "Void", "i8": "Int8", "i16": "Int16", "i32": "Int32", "i64": "Int64", "i128": "Int128", "u8": "Uint8",
          "u16": "Uint16", "u32": "Uint32", "u64": "Uint64", "u128": "Uint128", "usize": "Usize", "char8": "Char8", "bool": "Bool"}
A_BUILTIN = {"Abort": "abort", "Format": "format", "Print": "print", "Eprint": "eprint", "File": "file", "Line": "line",
             "Dbg": "dbg", "Panic": "panic", "IncludeBytes": "include_bytes"}


class AlphaPoison(Exception):
    pass


def a_type(t):
    k = t["t"]
    if k in A_PRIM:
        return ("prim", A_PRIM[k])
    if k == "array":
        return ("array", int(t["len"]), a_type(t["of"]))
    if k == "arrayn":
        return ("arrayn", t["name"], a_type(t["of"]))
    if k == "slice":
        return ("slice", a_type(t["of"]))
    if k == "endless":
        return ("endless", a_type(t["of"]))
    if k == "arraylike":
        return ("arraylike", a_type(t["of"]))
    if k == "ptr":
        return ("ptr", a_type(t["of"]))
    if k == "view":
        return ("view", a_type(t["of"]))
    if k in ("named", "struct", "word"):
        return ("named", t["name"])
    if k == "poison":
        raise AlphaPoison()
    raise ValueError(t)


def a_ref(r):
    if isinstance(r["base"], dict):
        raise AlphaPoison()
    steps = []
    for s in r["steps"]:
        if s["t"] == "elem":
            steps.append(("i", a_expr(s["arg"])))
        elif s["t"] == "member":
            steps.append(("m", s["name"]))
    return (r["addr"], r["base"], steps)


def a_int(value, ty):
    suffix = None
    if ty is not None:
        suffix = a_type(ty)[1]
    v = int(value)
    if suffix == "Char8":
        return ("char", v)
    if v < 0:
        return ("un", "Negative", ("int", -v, suffix))
    return ("int", v, suffix)


def a_expr(e):
    k = e["t"]
    if k == "binary":
        return ("bin", e["op"], a_expr(e["left"]), a_expr(e["right"]))
    if k == "unary":
        return ("un", e["op"], a_expr(e["of"]))
    if k == "bool":
        return ("bool", bool(e["value"]))
    if k in ("int", "bits"):
        return a_int(e["value"], e.get("type"))
    if k == "string":
        return ("str", bytes.fromhex(e["hex"]))
    if k == "arraylit":
        return ("arraylit", [a_expr(x) for x in e["elems"]])
    if k == "structural":
        st = e["stype"]
        if st.get("t") == "poison":
            raise AlphaPoison()
        members = []
        for m in e["members"]:
            if isinstance(m["name"], dict):
                raise AlphaPoison()
            members.append((m["name"], a_expr(m["value"])))
        return ("structlit", st["name"], members)
    if k == "paren":
        return ("paren", a_expr(e["of"]))
    if k == "deref":
        return ("deref", a_ref(e["ref"]))
    if k == "autocoerce":
        return a_expr(e["of"])
    if k == "bitcast":
        return ("bitcast", a_expr(e["of"]))
    if k == "typecast":
        return ("typecast", a_expr(e["of"]), a_type(e["type"]))
    if k == "lengthof":
        return ("len", a_ref(e["ref"]))
    if k == "sizeof":
        return ("sizeof", a_type(e["type"]))
    if k == "fcall":
        if e.get("builtin"):
            return ("fcall", A_BUILTIN[e["builtin"]], True, [a_expr(x) for x in e["args"]])
        return ("fcall", e["name"].rstrip("!"), e["name"].endswith("!"), [a_expr(x) for x in e["args"]])
    if k == "poison":
        raise AlphaPoison()
    raise ValueError(e)


def a_stmt(s):
    k = s["t"]
    if k == "var":
        return ("var", s["name"], a_type(s["type"]) if s["type"] is not None else None,
                a_expr(s["value"]) if s["value"] is not None else None)
    if k == "assign":
        return ("assign", a_ref(s["ref"]), a_expr(s["value"]))
    if k == "call":
        if s.get("builtin"):
            return ("call", A_BUILTIN[s["builtin"]], True, [a_expr(x) for x in s["args"]])
        return ("call", s["name"].rstrip("!"), s["name"].endswith("!"), [a_expr(x) for x in s["args"]])
    if k == "loop":
        return ("loop",)
    if k == "goto":
        return ("goto", s["label"])
    if k == "label":
        return ("label", s["label"])
    if k == "if":
        c = s["cond"]
        return ("if", (c["op"], a_expr(c["left"]), a_expr(c["right"])), a_stmt(s["then"]),
                a_stmt(s["else"]) if s["else"] is not None else None)
    if k == "block":
        return ("block", [a_stmt(x) for x in s["stmts"]])
    if k == "poison":
        raise AlphaPoison()
    raise ValueError(s)


def a_flags(f):
    return tuple(sorted(x for x in f if x in ("Public", "External", "OpaqueStruct")))


def a_decl(d):
    k = d["t"]
    if k == "const":
        return ("const", d["name"], a_flags(d["flags"]), a_type(d["type"]), a_expr(d["value"]))
    if k == "fn":
        params = []
        for p in d["params"]:
            if isinstance(p["name"], dict):
                raise AlphaPoison()
            params.append((p["name"], a_type(p["type"])))
        body = None
        if d["body"] is not None:
            if d["body"].get("t") == "poison":
                raise AlphaPoison()
            stmts = [a_stmt(x) for x in d["body"]["stmts"]]
            rv = a_expr(d["body"]["ret"]) if d["body"]["ret"] is not None else None
            if rv is not None and stmts and stmts[-1] == ("label", "return"):
                stmts = stmts[:-1]
            body = (stmts, rv)
        return ("fn", d["name"], a_flags(d["flags"]), params, a_type(d["ret"]), body)
    if k == "struct":
        st = d["stype"]
        size = st.get("size", -1) if st.get("t") == "word" else -1
        members = []
        for m in d["members"]:
            if isinstance(m["name"], dict):
                raise AlphaPoison()
            members.append((m["name"], a_type(m["type"])))
        return ("struct", d["name"], a_flags(d["flags"]), size, members)
    if k == "import":
        return ("import", d["file"], ())
    if k == "poison":
        raise AlphaPoison()
    raise ValueError(d)


def alpha_to_nform(ast):
    return [a_decl(d) for d in ast]


def first_difference(a, b, path="module"):
    """Human-readable location of the first difference between two N-forms, or None."""
    if type(a) != type(b) and not (isinstance(a, (list, tuple)) and isinstance(b, (list, tuple))):
        return "%s: %r vs %r" % (path, a, b)
    if isinstance(a, (list, tuple)):
        if len(a) != len(b):
            return "%s: %d vs %d items (%r / %r)" % (path, len(a), len(b), head(a), head(b))
        tag = a[0] if a and isinstance(a[0], str) else None
        for i, (x, y) in enumerate(zip(a, b)):
            d = first_difference(x, y, "%s/%s[%d]" % (path, tag, i) if tag else "%s[%d]" % (path, i))
            if d:
                return d
        return None
    if a != b:
        return "%s: %r vs %r" % (path, a, b)
    return None


def head(x):
    return x[0] if x and isinstance(x[0], str) else "list"
