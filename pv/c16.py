"""C16 - the second-generation parser builds a faithful parse tree.

Generated syntactic modules (every production, both list styles, random layout) and all corpus files both parsers
accept: the second-generation parser must report no error, its XML dump must be well formed (balanced, no MALFORMED
node) and the tree decoded from it must equal the generator's own syntax tree and the first-generation AST."""
import json

from . import common, gen_mutate, gen_syntax
from .common import HELD, VIOLATED, INCONCLUSIVE
from .gen_syntax import XmlError, AlphaPoison

PROP = "C16"


def fronts(src):
    kd, d = common.call({"op": "delta_front", "src": src, "xml": True}, build="chk", timeout=60)
    ka, a = common.call({"op": "alpha_front", "src": src, "ast": True, "rebuild": False}, build="chk", timeout=60)
    return (kd, d), (ka, a)


def describe_crash(k, r):
    return r.signature() if k == "crash" else common.panic_signature(r)


def check_source(src, expected=None, tag="generated"):
    """Returns (sig, detail) or (None, info)."""
    (kd, d), (ka, a) = fronts(src)
    if kd != "resp":
        return "second-generation front end: " + describe_crash(kd, d), str(d)[:300]
    if ka != "resp":
        return None, {"skipped": "first generation crashed (C02's business)"}
    alpha_ok = not a["errors"] and not a["has_poison"]
    if expected is None and not alpha_ok:
        return None, {"skipped": "not accepted by the first-generation parser"}
    if d["stage"] != "done":
        codes = sorted(set(e["code"] for e in d.get("errors", [])))
        if expected is None and d["stage"] == "lex":
            return None, {"skipped": "lexical error"}
        return "syntactically valid module rejected by the second-generation parser: %s (%s)" % (codes, tag), \
               {"errors": d.get("errors", [])[:3]}
    try:
        dn = gen_syntax.xml_to_nform(d["xml"])
    except XmlError as e:
        import re
        return "XML dump not well formed: " + re.sub(r'"[^"]*"', '".."', str(e))[:100], str(e)
    except (KeyError, IndexError, ValueError) as e:
        return "XML dump cannot be decoded: %s" % type(e).__name__, repr(e)
    info = {"declarations": len(dn), "xml_lines": len(d["xml"])}
    if expected is not None:
        diff = gen_syntax.first_difference(norm(expected), norm(dn))
        if diff:
            return "second-generation tree differs from the source: " + classify(diff), diff
    if alpha_ok:
        try:
            an = gen_syntax.alpha_to_nform(a["ast"])
        except AlphaPoison:
            return None, dict(info, skipped="poison in first-generation AST")
        diff = gen_syntax.first_difference(norm(an), norm(gen_syntax.strip_import_flags(dn)))
        if diff:
            return "the two parsers build different trees: " + classify(diff), diff
        if expected is not None:
            diff = gen_syntax.first_difference(norm(gen_syntax.strip_import_flags(expected)), norm(an))
            if diff:
                return "first-generation tree differs from the source: " + classify(diff), diff
        info["compared_with_first_generation"] = True
    elif expected is not None:
        codes = sorted(set(e["code"] for e in a["errors"]))
        return "syntactically valid module rejected by the first-generation parser: %s" % codes, a["errors"][:3]
    return None, info


def classify(diff):
    """Class of a tree difference: the path with indices removed."""
    import re
    path = diff.split(":")[0]
    return re.sub(r"\[\d+\]", "", path)[-70:]


def norm(x):
    """lists/tuples unified; literal suffix types kept; nothing else dropped."""
    if isinstance(x, (list, tuple)):
        return tuple(norm(y) for y in x)
    if isinstance(x, (bytes, bytearray)):
        return bytes(x)
    return x


def run_case(case):
    kind = case[0]
    if kind == "gen":
        _, seed, i = case
        rng = common.rng_for(seed, PROP, "gen", i)
        g = gen_syntax.G2(rng, size=rng.choice([1, 2, 4, 8]), depth=rng.choice([1, 2, 3]))
        decls = g.module()
        src = gen_syntax.Src(rng, wild=(i % 3 != 0)).module(decls)
        sig, detail = check_source(src, expected=decls)
        cov = {"generated_modules": 1, "declarations": len(decls)}
        for k in g.cov:
            cov["prod:" + k.split("|")[0]] = cov.get("prod:" + k.split("|")[0], 0) + g.cov[k]
        if sig:
            return {"verdict": VIOLATED, "sig": sig, "detail": detail, "replay": {"source": src}, "cov": cov}
        if detail.get("skipped"):
            return {"verdict": INCONCLUSIVE, "detail": detail["skipped"], "cov": cov}
        return {"verdict": HELD, "cov": cov, "nt": "gen:%s" % common.stable_hash(sorted(g.cov)),
                "sample": {"source": src[:600], "declarations": len(decls)} if i % 150 == 0 else None}
    _, path, text = case
    sig, detail = check_source(text, expected=None, tag="corpus")
    cov = {"corpus_files": 1}
    if sig:
        return {"verdict": VIOLATED, "sig": sig, "detail": detail, "replay": {"source": text, "path": path}, "cov": cov}
    if detail.get("skipped"):
        return {"verdict": None, "cov": {"corpus_skipped": 1}}
    cov["corpus_compared"] = 1
    return {"verdict": HELD, "cov": cov, "nt": "corpus:" + path}


def replay_file(path):
    with open(path) as f:
        data = json.load(f)
    common.ensure_worker("chk")
    sig, detail = check_source(data["replay"]["source"], expected=None)
    print(sig, str(detail)[:500])
    if sig:
        print("VIOLATION property=%s replay=%s" % (PROP, path))
        return 1
    print("replay: parsers agree on this input now (generator tree not available in replay)")
    return 0


def main(tier, seed, replay=None):
    if replay:
        return replay_file(replay)
    common.ensure_worker("chk")
    run = common.Run(PROP, tier, seed)
    q = tier == "quick"
    cases = [("gen", seed, i) for i in range(3000 if q else 50000)]
    cases += [("corpus", p, t) for p, t in gen_mutate.corpus() if "/invalid/" not in p and "/unresolved/" not in p]
    # modules at the documented limits of the grammar (address depth 127, in the three places a reference can stand) and with
    # every optional piece of punctuation
    for n in (1, 2, 126, 127):
        amp = "&" * n
        cases.append(("corpus", "special/address_depth_%d_expression.pn" % n, "fn main()\n{\n\tvar y = %sx;\n}\n" % amp))
        cases.append(("corpus", "special/address_depth_%d_target.pn" % n, "fn main()\n{\n\t%sx = 1;\n}\n" % amp))
        cases.append(("corpus", "special/address_depth_%d_length.pn" % n, "fn main()\n{\n\tvar y = |%sx|;\n}\n" % amp))
        cases.append(("corpus", "special/address_depth_%d_argument.pn" % n, "fn main()\n{\n\tf(1, %sx.a[2]);\n}\n" % amp))
    for name, text in {
        "trailing_commas": "fn f(a: i32, b: i32,) -> i32\n{\n\tvar t = [1, 2,];\n\tvar s = S { a: 1, b: 2, };\n\tg(a, b,);\n\treturn: h(a,)\n}\n"
                           "struct S\n{\n\ta: i32,\n\tb: i32,\n}\n",
        "no_trailing_commas": "fn f(a: i32, b: i32) -> i32\n{\n\tvar t = [1, 2];\n\tvar s = S { a: 1, b: 2 };\n\tg(a, b);\n\treturn: h(a)\n}\n"
                              "struct S\n{\n\ta: i32,\n\tb: i32\n}\n",
        "empty_lists": "fn f()\n{\n\tvar t = [];\n\tvar s = S { };\n\tg();\n}\nstruct S\n{\n}\n",
    }.items():
        cases.append(("corpus", "special/%s.pn" % name, text))
    # long expressions (balanced, so that no parser recurses deeply) in every position an expression can stand in: look-ahead
    # windows and reservations of a closing token must not depend on the distance to it
    def balanced(n, leaf="x"):
        return leaf if n <= 1 else "(%s + %s)" % (balanced(n // 2, leaf), balanced(n - n // 2, leaf))
    for n in (16, 40, 64, 65, 100, 128, 300, 1000):
        e = balanced(n)
        flat = " + ".join(["x"] * min(n, 64))
        for pos, text in {
            "if": "fn main()\n{\n\tif %s == 1\n\t{\n\t\tx = 2;\n\t}\n\telse\n\t{\n\t\tx = 3;\n\t}\n}\n",
            "if_goto": "fn main()\n{\n\tif %s == 1\n\t\tgoto end;\n\tend:\n}\n",
            "else_if": "fn main()\n{\n\tif x == 1\n\t{\n\t}\n\telse if %s > 2\n\t{\n\t}\n}\n",
            "if_both_sides": "fn main()\n{\n\tif %s == %s\n\t{\n\t}\n}\n",
            "init": "fn main()\n{\n\tvar y = %s;\n}\n", "index": "fn main()\n{\n\tvar y = a[%s];\n}\n",
            "target_index": "fn main()\n{\n\ta[%s] = 1;\n}\n", "argument": "fn main()\n{\n\tf(1, %s, 2);\n}\n",
            "return": "fn f() -> i32\n{\n\treturn: %s\n}\n", "array": "fn main()\n{\n\tvar y = [1, %s, 2];\n}\n",
            "member": "fn main()\n{\n\tvar y = S { a: %s, b: 1 };\n}\n", "constant": "const C: i32 = %s;\n",
            "array_length": "fn main()\n{\n\tvar y = |a| + %s;\n}\n", "cast": "fn main()\n{\n\tvar y = %s as u8;\n}\n",
        }.items():
            cases.append(("corpus", "special/long_%d_%s.pn" % (n, pos), text.replace("%s", e)))
            if n <= 64:
                cases.append(("corpus", "special/flat_%d_%s.pn" % (n, pos), text.replace("%s", flat)))
    for r in common.run_sharded(run_case, cases):
        if r.get("verdict") is None and "harness_error" not in r:
            run.merge_counters(r.get("cov"))
            continue
        run.feed(r)
    run.assumptions = [
        "normal form bridges representation only: folded negative literals, concatenated adjacent strings (decoded by a reference decoder), "
        "`return` label vs keyword, CompositeValueType wrappers, integer literal spelling",
        "modules are syntactic (they need not type-check)",
    ]
    prods = sorted(k[5:] for k in run.counters if k.startswith("prod:"))
    return run.finish(
        rule="generated modules of 1-8 declarations covering every declaration kind, type form, statement, expression form, precedence level and "
             "both list styles in random layout, compared three ways (generator tree, second-generation XML, first-generation AST); all corpus files "
             "both parsers accept, compared two ways. distinct_nontrivial = distinct sets of grammar productions exercised + corpus files",
        coverage_extra={"productions_covered": prods, "productions_count": len(prods)},
        min_evaluations=200)
