"""C01 - compiled programs behave as their source prescribes.

G1 programs -> R1 (reference interpreter) gives expected stdout/exit status;
each program is printed in several layouts, compiled by the real compiler through
the worker, executed with lli (the `penne run` path) and compared byte for byte."""
import json

from . import common, gen_prog, interp
from .common import HELD, VIOLATED, INCONCLUSIVE

PROP = "C01"

STYLES = [
    dict(paren="min", ws="plain", comments=False, crlf=False, lit="plain"),
    dict(paren="full", ws="wild", comments=True, crlf=False, lit="varied"),
    dict(paren="random", ws="wild", comments=True, crlf=True, lit="varied"),
]


def gen_opts(rng, i):
    """Rotating feature profiles so that every construct is exercised alone and in combination."""
    profiles = [
        {},
        {"structs": False, "pointers": False, "arrays": False, "calls": False},
        {"pointers": False},
        {"types": gen_prog.INTS_S + ["bool"], "structs": False},
        {"types": gen_prog.INTS_U + ["usize", "char8"], "structs": False},
        {"max_funcs": 6, "max_stmts": 6},
        {"gotos": False, "loops": False},
        {"max_stmts": 16, "max_depth": 4, "expr_depth": 4},
        {"inference": 0.5},
    ]
    return profiles[i % len(profiles)]


def make_program(seed, i, opts_override=None):
    rng = common.rng_for(seed, PROP, i)
    opts = dict(gen_opts(rng, i))
    if opts_override:
        opts.update(opts_override)
    g = gen_prog.Gen(rng, opts)
    prog = g.gen_program()
    return prog, g.cov, rng


def compile_sources(files, build="chk"):
    return common.call({"op": "alpha_compile", "files": [{"path": p, "src": s} for p, s in files],
                        "ir": True, "module_ir": False}, build=build, timeout=60)


def check_program(prog, rng, expected, nstyles=3, build="chk", single_path="prog.pn"):
    """Compile+run the program in several layouts; returns (violation or None, info)."""
    exp_out, exp_status = expected
    for si in range(nstyles):
        st = dict(STYLES[si % len(STYLES)])
        style = gen_prog.Style(rng=common.rng_for(rng.getrandbits(32), "style", si), **st)
        src = gen_prog.to_source(prog, style)
        kind, r = compile_sources([(single_path, src)], build)
        replay = {"source": src, "style": st, "expected_stdout": exp_out.decode("latin-1"),
                  "expected_status": exp_status}
        if kind == "crash":
            return {"sig": "compiler crash on well-formed program: " + r.signature(), "detail": r.to_json(),
                    "replay": replay}
        if kind == "panic":
            return {"sig": "compiler panic on well-formed program: " + common.panic_signature(r), "detail": r,
                    "replay": replay}
        if r["status"] != "ok":
            codes = sorted(set(e["code"] for e in r.get("errors", [])))
            return {"sig": "well-formed program rejected: codes %s" % codes,
                    "detail": {"errors": r.get("errors"), "status": r["status"], "stage": r.get("stage"),
                               "error": r.get("error")}, "replay": replay}
        res = common.run_lli(r["ir"], timeout=20)
        if res["status"] == "timeout":
            res = common.run_lli(r["ir"], timeout=90)
            if res["status"] == "timeout":
                return {"sig": "emitted code does not terminate", "detail": "lli > 90 s; R1 finished", "replay": replay}
        if res["status"] == "signal":
            return {"sig": "emitted code crashes: signal %s" % (-res["code"]), "detail": res["stderr"].decode("latin-1")[:500],
                    "replay": replay}
        if res["stdout"] != exp_out or res["code"] != exp_status:
            replay["observed_stdout"] = res["stdout"].decode("latin-1")
            replay["observed_status"] = res["code"]
            what = "stdout" if res["stdout"] != exp_out else "exit status"
            return {"sig": "wrong %s (style %s)" % (what, st["paren"]),
                    "detail": first_diff(exp_out, res["stdout"], exp_status, res["code"]), "replay": replay}
    return None


def first_diff(exp, got, es, gs):
    el, gl = exp.split(b"\n"), got.split(b"\n")
    for i, (a, b) in enumerate(zip(el, gl)):
        if a != b:
            return "line %d: expected %r, observed %r (status %s vs %s)" % (i + 1, a[:80], b[:80], es, gs)
    return "length/status differ: %d vs %d lines, status %s vs %s" % (len(el), len(gl), es, gs)


def check_split(prog, rng, expected, cov):
    """The same program with its declarations spread over 2-4 modules (a layout like any other): compiled with the files in
    two rotations and in reverse, executed, compared with the reference interpreter."""
    n_decl = len(prog.consts) + len(prog.structs) + len(prog.funcs)
    if n_decl < 2:
        return None
    exp_out, exp_status = expected
    mods, _info = gen_prog.split_modules(prog, rng, rng.randrange(2, min(4, n_decl) + 1))
    files = [(fn, gen_prog.module_source(decls, imps)) for fn, decls, imps in mods]
    k = rng.randrange(len(files))
    for fs in (files[k:] + files[:k], list(reversed(files)), files):
        kind, r = compile_sources(fs)
        replay = {"files": fs, "expected_stdout": exp_out.decode("latin-1"), "expected_status": exp_status}
        cov["cell:layout:modules"] = 1
        if kind == "crash":
            return {"sig": "compiler crash on well-formed program in several modules: " + r.signature(), "detail": r.to_json(), "replay": replay}
        if kind == "panic":
            return {"sig": "compiler panic on well-formed program in several modules: " + common.panic_signature(r), "detail": r, "replay": replay}
        if r["status"] != "ok":
            codes = sorted(set(e["code"] for e in r.get("errors", [])))
            return {"sig": "well-formed program in several modules rejected: codes %s" % codes,
                    "detail": {"errors": r.get("errors"), "status": r["status"], "error": r.get("error")}, "replay": replay}
        res = common.run_lli(r["ir"], timeout=30)
        if res["status"] == "timeout":
            res = common.run_lli(r["ir"], timeout=90)
            if res["status"] == "timeout":
                return {"sig": "emitted code does not terminate", "detail": "lli > 90 s; R1 finished", "replay": replay}
        if res["status"] == "signal":
            return {"sig": "emitted code crashes: signal %s" % (-res["code"]), "detail": res["stderr"].decode("latin-1")[:500], "replay": replay}
        if res["stdout"] != exp_out or res["code"] != exp_status:
            what = "stdout" if res["stdout"] != exp_out else "exit status"
            return {"sig": "wrong %s (program in several modules)" % what,
                    "detail": first_diff(exp_out, res["stdout"], exp_status, res["code"]), "replay": replay}
    return None


def run_case(case):
    seed, i, nstyles = case
    prog, cov, rng = make_program(seed, i)
    try:
        out, status, trace = interp.run_program(prog)
    except interp.Undefined as u:
        return {"verdict": None, "cov": {"discarded_ub": 1, "discard:" + str(u)[:30]: 1}}
    cov = {("cell:" + k): 1 for k in cov}
    v = check_program(prog, rng, (out, status), nstyles)
    if v is None and i % 3 == 0:
        v = check_split(prog, rng, (out, status), cov)
    nontrivial = trace["loop_iters"] > 0 or trace["gotos"] > 0 or trace["calls"] > 1
    res = {"cov": cov, "nt": gen_prog.shape_hash(prog) if nontrivial else None}
    res["cov"]["programs"] = 1
    res["cov"]["variants"] = nstyles
    res["cov"]["loop_iterations"] = trace["loop_iters"]
    res["cov"]["taken_gotos"] = trace["gotos"]
    res["cov"]["calls"] = trace["calls"]
    res["cov"]["printed_bytes"] = len(out)
    if v is None:
        res["verdict"] = HELD
        if i % 97 == 0:
            res["sample"] = {"case": i, "source": gen_prog.to_source(prog)[:1500],
                             "expected_stdout": out.decode("latin-1")[:200], "expected_status": status}
    else:
        v["replay"]["case"] = [seed, i]
        res.update(verdict=VIOLATED, sig=v["sig"], detail=v["detail"], replay=v["replay"])
    return res


def window_programs():
    """Deterministic programs: for every integer type and every narrower width w, variables initialised with literals whose bit
    w-1 is the top bit set (2^(w-1), 2^w - 1, one value in between), declared, assigned and passed, each printed; compiled with
    decimal, hexadecimal and binary spellings. A literal denotes its value whatever bits it has in common with a narrower type."""
    from .gen_prog import P, BITS, INTS
    progs = []
    for t in INTS:
        body = []
        k = 0
        for w in (8, 16, 32, 64, 128):
            if w > BITS[t]:
                continue
            top = w - 1 if (t.startswith("i") and w == BITS[t]) else w      # stay inside the type
            if top < 2:
                continue
            for v in ((1 << (top - 1)), (1 << top) - 1, (1 << (top - 1)) + 5):
                name = "w%d" % k
                k += 1
                body.append(("var", name, P(t), ("lit", P(t), v)))
                body.append(("print", [("read", P(t), (name, ())), ("str", None, b"\n")]))
                body.append(("assign", (name, ()), ("lit", P(t), v)))
                body.append(("print", [("bin", P(t), "+", ("read", P(t), (name, ())), ("lit", P(t), 0)), ("str", None, b"\n")]))
        prog = gen_prog.Program()
        prog.funcs = [{"name": "main", "params": [], "ret": P("i32"), "body": body, "ret_expr": ("lit", P("i32"), 0),
                       "effectful": True, "index": 0}]
        progs.append((t, prog))
    return progs


def run_window(case):
    _, idx = case
    t, prog = window_programs()[idx]
    out, status, _trace = interp.run_program(prog)
    cov = {"literal_window_programs": 1}
    for lit in ("plain", "hex", "bin"):
        style = gen_prog.Style(rng=common.rng_for(idx, "window", lit), lit=lit)
        src = gen_prog.to_source(prog, style)
        kind, r = compile_sources([("window.pn", src)], "chk")
        replay = {"source": src, "style": {"lit": lit}, "expected_stdout": out.decode("latin-1"), "expected_status": status}
        if kind != "resp" or r["status"] != "ok":
            what = r.signature() if kind == "crash" else (common.panic_signature(r) if kind == "panic" else
                                                          sorted(set(e["code"] for e in r.get("errors", []))))
            return {"verdict": VIOLATED, "sig": "literal-window program (%s spelling) not compiled: %s" % (lit, what), "detail": str(r)[:300],
                    "replay": replay, "cov": cov}
        res = common.run_lli(r["ir"], timeout=20)
        if res["stdout"] != out or res["code"] != status:
            return {"verdict": VIOLATED, "sig": "literal with the top bit of a narrower width set denotes another value (%s spelling)" % lit,
                    "detail": first_diff(out, res["stdout"], status, res["code"]), "replay": replay, "cov": cov}
        cov["literal_window_variants"] = cov.get("literal_window_variants", 0) + 1
    return {"verdict": HELD, "cov": cov, "nt": "window:" + t}


# Constructs the random class leaves out because the unchanged tree mishandles them (known findings);
# each is kept alive as a fixed probe with an exact signature, so the defect is re-observed on every run
# and anything else that goes wrong with these programs is still raised.
PROBES = {
    "member_of_array_element": (r"""struct In { n: i32, }
fn main() -> i32
{
	var a: [2]In = [In { n: 14i32 }, In { n: 17i32 }];
	var x: i32 = a[1].n;
	print!(x, "\n");
	return: 0
}
""", b"17\n", 0),
    "write_element_of_array_member": (r"""struct S { arr: [3]i32, }
fn main() -> i32
{
	var s = S { arr: [2i32, 3i32, 4i32] };
	s.arr[1] = 77;
	var x: i32 = s.arr[1];
	print!(x, "\n");
	return: 0
}
""", b"77\n", 0),
    "read_through_pointer_to_sized_array_parameter": (r"""fn f(a: &[2]u32) -> u32
{
	return: a[1]
}
fn main() -> i32
{
	var arr: [2]u32 = [5u32, 6u32];
	var r: u32 = f(&arr);
	print!(r, "\n");
	return: 0
}
""", b"6\n", 0),
    "write_through_pointer_to_sized_array_parameter": (r"""fn f(a: &[2]u32)
{
	a[1] = 9;
}
fn main() -> i32
{
	var arr: [2]u32 = [5u32, 6u32];
	f(&arr);
	print!(arr[1], "\n");
	return: 0
}
""", b"9\n", 0),
}


def run_probe(name):
    src, out, status = PROBES[name]
    kind, r = compile_sources([("probe.pn", src)])
    replay = {"source": src, "expected_stdout": out.decode("latin-1"), "expected_status": status, "probe": name}
    if kind == "crash":
        return {"verdict": VIOLATED, "sig": "probe %s: compiler crash: %s" % (name, r.signature()), "detail": r.to_json(), "replay": replay}
    if kind == "panic":
        return {"verdict": VIOLATED, "sig": "probe %s: %s" % (name, common.panic_signature(r)), "detail": r, "replay": replay}
    if r["status"] != "ok":
        codes = sorted(set(e["code"] for e in r.get("errors", [])))
        return {"verdict": VIOLATED, "sig": "probe %s: rejected with codes %s" % (name, codes), "detail": r.get("errors"), "replay": replay}
    res = common.run_lli(r["ir"], timeout=30)
    if res["status"] != "ok" or res["stdout"] != out or res["code"] != status:
        return {"verdict": VIOLATED, "sig": "probe %s: wrong behaviour" % name,
                "detail": {"observed": res["stdout"].decode("latin-1"), "status": res["code"]}, "replay": replay}
    return {"verdict": HELD, "nt": "probe:" + name, "cov": {"probes_passed": 1}}


def replay_file(path):
    with open(path) as f:
        data = json.load(f)
    rp = data["replay"]
    common.ensure_worker("chk")
    kind, r = compile_sources([("prog.pn", rp["source"])])
    if kind != "resp" or r["status"] != "ok":
        print("compile:", kind, r if kind != "crash" else r.signature())
        print("VIOLATION property=%s replay=%s" % (PROP, path))
        return 1
    res = common.run_lli(r["ir"], timeout=60)
    ok = res["stdout"].decode("latin-1") == rp["expected_stdout"] and res["code"] == rp["expected_status"]
    print("observed status", res["code"], "expected", rp["expected_status"])
    if ok:
        print("replay: property holds on this input now")
        return 0
    print("VIOLATION property=%s replay=%s" % (PROP, path))
    return 1


def main(tier, seed, replay=None):
    if replay:
        return replay_file(replay)
    common.ensure_worker("chk")
    run = common.Run(PROP, tier, seed, level="translation_validation")
    n = 1200 if tier == "quick" else 40000
    cases = [(seed, i, 3 if i % 4 == 0 else 1) if tier == "quick" else (seed, i, 3) for i in range(n)]
    results = common.run_sharded(run_case, cases)
    results += common.run_sharded(run_window, [("window", k) for k in range(len(window_programs()))])
    for name in sorted(PROBES):
        results.append(run_probe(name))
    for r in results:
        if r.get("verdict") is None and "harness_error" not in r:
            run.merge_counters(r.get("cov"))
            continue
        run.feed(r)
    cells = sorted(k[5:] for k in run.counters if k.startswith("cell:"))
    want = expected_cells()
    missing = sorted(set(want) - set(cells))
    run.assumptions = [
        "expected behaviour = reference interpreter R1 (pv/interp.py) written from README/docs; programs in which R1 meets "
        "undefined behaviour (division by zero, MIN/-1, shift >= width, bad index, uninitialised read, dangling pointer, step limit) are discarded before compilation",
        "execution through lli-14 on the linked IR (the `penne run` path); exit status compared modulo 256",
        "acceptance ('every well-formed program is accepted') is decided for the generated class only",
    ]
    return run.finish(
        rule="a case = one generated program x its layout variants (minimal / full / random parentheses, wild whitespace, comments, CRLF, "
             "literal spellings), compiled, executed and compared on full stdout and exit status with R1; distinct_nontrivial = distinct "
             "AST shapes (literals abstracted) whose reference execution ran >= 1 loop iteration, taken goto or nested call",
        coverage_extra={
            "programs": int(run.counters.get("programs", 0)),
            "disagreements_checked": int(run.counters.get("variants", 0)),
            "matrix_cells_hit": len(cells),
            "matrix_cells_wanted_missing": missing,
            "discarded_ub": int(run.counters.get("discarded_ub", 0)),
        },
        min_evaluations=50)


def expected_cells():
    out = []
    for t in gen_prog.INTS:
        for op in gen_prog.ARITH:
            out.append("bin:%s:%s" % (t, op))
        for op in gen_prog.CMPS:
            out.append("cmp:%s:%s" % (t, op))
    for t in gen_prog.INTS_U:
        for op in gen_prog.BITWISE + gen_prog.SHIFTS:
            out.append("bin:%s:%s" % (t, op))
        out.append("un:%s:!" % t)
    for t in gen_prog.INTS_S:
        out.append("un:%s:-" % t)
    for a in gen_prog.INTS:
        for b in gen_prog.INTS:
            if a != b:
                out.append("cast:%s:%s" % (a, b))
    for k in ["value", "word_by_value", "struct_view", "array_view", "slice_pointer", "pointer_to_prim",
              "pointer_to_pointer", "pointer_to_array", "pointer_to_struct"]:
        out.append("param:" + k)
    return out
