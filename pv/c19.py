"""C19 - the token fuzzer emits only valid lexemes.

Texts produced by `fill_to_capacity_with_tokens(95, String::with_capacity(kb * 1096), 0)` (the call the CLI makes;
random choices seeded through hook H2) and by the real `penne fuzz tokens --kb N --out-dir D` command line are
lexed by both lexers: no lexical error, valid UTF-8, at least N kilobytes."""
import json
import os
import subprocess
import tempfile

from . import common
from .common import HELD, VIOLATED, INCONCLUSIVE

PROP = "C19"


def analyse(text_bytes, kb, origin, replay_extra):
    """Returns a result dict for one generated text."""
    cov = {"texts": 1, "bytes": len(text_bytes), "origin_" + origin: 1, "kb_%d" % kb: 1}
    replay = dict(replay_extra, kb=kb, origin=origin)
    try:
        text = text_bytes.decode("utf-8")
    except UnicodeDecodeError as e:
        replay["hex_head"] = text_bytes[:200].hex()
        return {"verdict": VIOLATED, "sig": "fuzzer output is not valid UTF-8", "detail": str(e), "replay": replay, "cov": cov}
    replay["text"] = text if len(text) < 20000 else text[:20000]
    if len(text_bytes) < kb * 1024:
        return {"verdict": VIOLATED, "sig": "fuzzer output shorter than requested", "detail": {"bytes": len(text_bytes), "kb": kb},
                "replay": replay, "cov": cov}
    k, r = common.call({"op": "lex3", "src": text, "tokens": True}, build="chk", timeout=120)
    if k != "resp":
        sig = r.signature() if k == "crash" else common.panic_signature(r)
        return {"verdict": VIOLATED, "sig": "lexer crash on fuzzer output: " + sig, "detail": str(r)[:300], "replay": replay, "cov": cov}
    for which, errs in (("first-generation", r["alpha_errors"]), ("second-generation", r["delta_errors"])):
        if errs:
            code, start, end = errs[0]
            ctx = text_bytes[max(0, start - 30):end + 30].decode("utf-8", "replace")
            return {"verdict": VIOLATED, "sig": "%s lexer reports E%d on fuzzer output" % (which, code),
                    "detail": {"context": ctx, "lexeme": text_bytes[start:end].decode("utf-8", "replace"), "errors": len(errs)},
                    "replay": replay, "cov": cov}
    toks = r["delta"]
    cov["tokens"] = len(toks)
    prev = None
    for t in toks:
        cov["kind:" + t["k"]] = cov.get("kind:" + t["k"], 0) + 1
        if prev is not None:
            glued = prev["e"] == t["s"]
            key = "adj:%s>%s%s" % (family(prev["k"]), family(t["k"]), ":glued" if glued else "")
            cov[key] = cov.get(key, 0) + 1
        prev = t
    return {"verdict": HELD, "cov": cov, "nt": "%s:%d:%s" % (origin, kb, common.stable_hash(text[:4000]))}


def family(kind):
    if kind in ("Identifier", "Builtin", "ValueTypeKeyword", "BoolLiteral") or kind[0].isupper() and kind in (
            "Fn", "Var", "Const", "If", "Goto", "Loop", "Return", "Else", "Cast", "As", "Import", "Pub", "Extern", "Struct",
            "Word8", "Word16", "Word32", "Word64", "Word128", "Placeholder"):
        return "word"
    if kind in ("NakedDecimal", "BitInteger", "SuffixedInteger"):
        return "number"
    if kind in ("CharLiteral", "StringLiteral"):
        return "quoted"
    return "punct"


def run_case(case):
    kind = case[0]
    if kind == "api":
        _, seed, i, kb = case
        fuzz_seed = (seed * 1000003 + i) & 0xFFFFFFFF
        k, r = common.call({"op": "fuzz_tokens", "kb": kb, "seed": fuzz_seed}, build="chk", timeout=300)
        if k != "resp":
            sig = r.signature() if k == "crash" else common.panic_signature(r)
            return {"verdict": VIOLATED, "sig": "fuzzer crash: " + sig, "detail": str(r)[:300], "replay": {"kb": kb, "fuzz_seed": fuzz_seed}}
        if r["status"] != "ok":
            return {"verdict": VIOLATED, "sig": "fuzzer fails: " + str(r.get("error"))[:80], "detail": r, "replay": {"kb": kb, "fuzz_seed": fuzz_seed}}
        res = analyse(r["text"].encode("utf-8"), kb, "api", {"fuzz_seed": fuzz_seed})
        if i % 40 == 0 and res["verdict"] == HELD:
            res["sample"] = {"kb": kb, "fuzz_seed": fuzz_seed, "head": r["text"][:200]}
        return res
    if kind == "cli":
        _, seed, i, kb = case
        exe = common.penne_bin_path()
        d = tempfile.mkdtemp(prefix="pv-c19-")
        try:
            env = dict(os.environ)
            env["PENNE_VERIF_FUZZ_SEED"] = str((seed * 7919 + i) & 0xFFFFFFFF)
            p = subprocess.run([exe, "fuzz", "tokens", "--kb", str(kb), "--out-dir", d], env=env, stdout=subprocess.PIPE,
                               stderr=subprocess.PIPE, timeout=300)
            path = os.path.join(d, "fuzzed_tokens.pn")
            if p.returncode != 0 or not os.path.exists(path):
                return {"verdict": VIOLATED, "sig": "penne fuzz tokens fails (exit %s)" % p.returncode,
                        "detail": p.stderr.decode("utf-8", "replace")[-400:], "replay": {"kb": kb, "env_seed": env["PENNE_VERIF_FUZZ_SEED"]}}
            data = open(path, "rb").read()
        finally:
            import shutil
            shutil.rmtree(d, ignore_errors=True)
        return analyse(data, kb, "cli", {"env_seed": env["PENNE_VERIF_FUZZ_SEED"]})
    raise ValueError(kind)


def replay_file(path):
    with open(path) as f:
        data = json.load(f)
    common.ensure_worker("chk")
    rp = data["replay"]
    if "text" in rp:
        res = analyse(rp["text"].encode("utf-8"), 0, "replay", {})
        if res["verdict"] == VIOLATED:
            print(res["sig"], res["detail"])
            print("VIOLATION property=%s replay=%s" % (PROP, path))
            return 1
    print("replay: saved text lexes cleanly now")
    return 0


def main(tier, seed, replay=None):
    if replay:
        return replay_file(replay)
    common.ensure_worker("chk")
    common.ensure_penne_bin()
    run = common.Run(PROP, tier, seed)
    q = tier == "quick"
    sizes = [1, 1, 1, 2, 2, 3, 4, 8, 16, 32, 64]
    cases = []
    for i in range(260 if q else 12000):
        kb = sizes[i % len(sizes)] if (not q or i % 11 < 9) else 1
        cases.append(("api", seed, i, kb))
    for i in range(24 if q else 400):
        cases.append(("cli", seed, i, [1, 2, 4, 8, 16, 64, 61, 33][i % 8]))
    for r in common.run_sharded(run_case, cases):
        run.feed(r)
    run.assumptions = [
        "fuzzer randomness is seeded through hook H2 (PENNE_VERIF_FUZZ_SEED) so that a failing text can be regenerated; failures are replayed from the saved text anyway",
        "'at least the requested number of kilobytes' is read as >= kb * 1024 bytes",
    ]
    kinds = {k[5:]: int(v) for k, v in run.counters.items() if k.startswith("kind:")}
    adj = {k[4:]: int(v) for k, v in run.counters.items() if k.startswith("adj:")}
    return run.finish(
        rule="each case = one generated text (library call with the CLI's arguments, sizes 1-64 KB, or the real `penne fuzz tokens` command) lexed by both "
             "lexers; distinct_nontrivial = distinct texts (by content hash)",
        coverage_extra={"token_kind_histogram": kinds, "adjacency_pairs": adj, "bytes_generated": int(run.counters.get("bytes", 0))},
        min_evaluations=100)
