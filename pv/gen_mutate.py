"""Hostile source-text workloads: corpus mutators, token soup, exhaustive short
token sequences, nesting and size stress, module sets."""
import os
import re

from . import common

KEYWORDS = ["fn", "var", "const", "if", "goto", "loop", "else", "cast", "as", "import", "pub", "extern",
            "struct", "word8", "word16", "word32", "word64", "word128"]
TYPES = ["i8", "i16", "i32", "i64", "i128", "u8", "u16", "u32", "u64", "u128", "usize", "char8", "bool", "void"]
PUNCT = ["(", ")", "{", "}", "[", "]", "<", ">", "|", "&", "^", "!", "_", "+", "-", "*", "/", "%", ":", ";",
         ".", ",", "=", "==", "!=", ">=", "<=", "<<", ">>", "->", "|:", ".."]
LITERALS = ["0", "1", "17", "255", "0x1F", "0b101", "12u8", "3i64", "0usize", "true", "false", "'a'", "'\\n'",
            '"hi"', '"a\\x41\\u{20ac}\\0"', "340282366920938463463374607431768211455", "128i8"]
IDENTS = ["x", "y", "foo", "main", "return", "end", "Foo", "print!", "abort!", "format!", "file!", "line!",
          "dbg!", "panic!", "eprint!", "include_bytes!"]
ALL_TOKENS = KEYWORDS + TYPES + PUNCT + LITERALS + IDENTS

TOKEN_RE = re.compile(
    r"""//[^\n]*            # comment
      |"(?:\\.|[^"\\\n])*"? # string
      |'(?:\\.|[^'\\\n])*'? # char
      |0x[0-9a-fA-F_]+[a-z0-9]*|0b[01_]+[a-z0-9]*|[0-9][0-9_]*[a-z0-9]*
      |[A-Za-z_][A-Za-z0-9_]*!?
      |==|!=|>=|<=|<<|>>|->|\|:|\.\.
      |\s+
      |.""", re.X | re.S)


def tokenize(text):
    return [m.group(0) for m in TOKEN_RE.finditer(text)]


def is_space(tok):
    return tok.strip() == ""


_corpus_cache = None


def docs_examples():
    """[(docs/<file>.md#<n>, text)]: every ```penne block of the documentation (docs/errors.md has an example of erroneous
    code for every error and lint code, so these reach diagnostics that no sample file produces)."""
    out = []
    for name in ("errors.md", "features.md", "syntax.md", "index.md"):
        path = os.path.join(common.REPO, "docs", name)
        if not os.path.isfile(path):
            continue
        text = common.read_text(path) or ""
        for n, m in enumerate(re.finditer(r"```penne[^\n]*\n(.*?)```", text, re.S)):
            out.append(("docs/%s#%d" % (name, n), m.group(1)))
    return out


def corpus():
    """[(relative path, text)] of all UTF-8 .pn files in the repository, and the code blocks of its documentation."""
    global _corpus_cache
    if _corpus_cache is None:
        out = []
        for p in common.corpus_files():
            t = common.read_text(p)
            if t is not None:
                out.append((os.path.relpath(p, common.REPO), t))
        out += docs_examples()
        _corpus_cache = out
    return _corpus_cache


MUTATORS = ["tok_delete", "tok_dup", "tok_swap", "tok_replace", "tok_kw", "tok_type", "amp", "drop_semi",
            "drop_brace", "byte_flip", "byte_insert", "truncate", "crlf", "splice", "dup_decl", "rename_use",
            "insert_tok", "multibyte", "paren_wrap", "num_edit", "drop_annot"]


def mutate(rng, text, op=None, other=None):
    """One mutation. Returns (op, text) with valid UTF-8 text."""
    op = op or rng.choice(MUTATORS)
    toks = tokenize(text)
    idx = [i for i, t in enumerate(toks) if not is_space(t) and not t.startswith("//")]
    if not idx:
        return "noop", text
    i = rng.choice(idx)
    if op == "tok_delete":
        del toks[i]
    elif op == "tok_dup":
        toks.insert(i, toks[i] + " ")
    elif op == "tok_swap":
        j = idx[(idx.index(i) + 1) % len(idx)]
        toks[i], toks[j] = toks[j], toks[i]
    elif op == "tok_replace":
        toks[i] = rng.choice(ALL_TOKENS)
    elif op == "insert_tok":
        toks.insert(i, " " + rng.choice(ALL_TOKENS) + " ")
    elif op == "tok_kw":
        ids = [k for k in idx if re.fullmatch(r"[A-Za-z_][A-Za-z0-9_]*", toks[k]) and toks[k] not in KEYWORDS]
        if ids:
            toks[rng.choice(ids)] = rng.choice(KEYWORDS + ["return"])
    elif op == "tok_type":
        ids = [k for k in idx if toks[k] in TYPES]
        if ids:
            toks[rng.choice(ids)] = rng.choice(TYPES)
    elif op == "amp":
        ids = [k for k in idx if toks[k] == "&"]
        if ids and rng.random() < 0.5:
            del toks[rng.choice(ids)]
        else:
            toks.insert(i, "&")
    elif op == "drop_semi":
        ids = [k for k in idx if toks[k] == ";"]
        if ids:
            del toks[rng.choice(ids)]
    elif op == "drop_brace":
        ids = [k for k in idx if toks[k] in "{}()[]"]
        if ids:
            del toks[rng.choice(ids)]
    elif op == "drop_annot":
        # remove the type annotation of a variable declaration (`var x: T = e;` -> `var x = e;`): type inference
        # has to do the work, or fail (E58x)
        starts = []
        for k in idx:
            if toks[k] == "var":
                rest = [j for j in idx if j > k][:3]
                if len(rest) == 3 and toks[rest[1]] == ":":
                    end = next((j for j in idx if j > rest[1] and toks[j] in ("=", ";")), None)
                    if end is not None:
                        starts.append((rest[1], end))
        if starts:
            a, b = rng.choice(starts)
            del toks[a:b]
    elif op == "paren_wrap":
        toks[i] = "(" + toks[i] + ")"
    elif op == "num_edit":
        ids = [k for k in idx if toks[k][0].isdigit()]
        if ids:
            k = rng.choice(ids)
            toks[k] = rng.choice(["0", "1", "255", "256", "65536", "4294967296", "18446744073709551616",
                                  "340282366920938463463374607431768211455",
                                  "340282366920938463463374607431768211456", "0x", "0b", "1_", "00", "1u7",
                                  toks[k] + "0", "-" + toks[k]])
    elif op in ("byte_flip", "byte_insert", "truncate", "multibyte"):
        text2 = "".join(toks)
        if op == "truncate":
            return op, text2[:rng.randrange(len(text2) + 1)]
        pos = rng.randrange(len(text2) + 1)
        if op == "multibyte":
            ch = rng.choice(["é", "€", "𝄞", "\u00a0", "\u2028", "\ufeff", "日"])
        elif op == "byte_insert":
            ch = chr(rng.choice([0, 1, 9, 10, 11, 12, 13, 27, 34, 39, 92, 127, 128, 255, 0x3b, 0x7b, 0x7d,
                                 rng.randrange(32, 127)]))
        else:
            if pos >= len(text2):
                pos = len(text2) - 1
            ch = chr((ord(text2[pos]) ^ (1 << rng.randrange(7))) & 0x7F) if ord(text2[pos]) < 128 else "?"
            return op, text2[:pos] + ch + text2[pos + 1:]
        return op, text2[:pos] + ch + text2[pos:]
    elif op == "crlf":
        return op, "".join(toks).replace("\r\n", "\n").replace("\n", "\r\n")
    elif op == "splice":
        o = other if other is not None else text
        a = "".join(toks)
        cut_a = rng.randrange(len(a) + 1)
        cut_b = rng.randrange(len(o) + 1)
        return op, a[:cut_a] + o[cut_b:]
    elif op == "dup_decl":
        a = "".join(toks)
        starts = [m.start() for m in re.finditer(r"(?m)^(?:pub |extern )*(?:fn|const|struct|word\d+)\b", a)]
        if starts:
            s = rng.choice(starts)
            later = [x for x in starts if x > s]
            e = later[0] if later else len(a)
            return op, a + "\n" + a[s:e]
    elif op == "rename_use":
        ids = [k for k in idx if re.fullmatch(r"[a-z_][A-Za-z0-9_]*", toks[k]) and toks[k] not in KEYWORDS
               and toks[k] not in TYPES]
        if ids:
            k = rng.choice(ids)
            toks[k] = rng.choice([toks[k] + "_", "undefined_name", toks[rng.choice(ids)]])
    return op, "".join(toks)


def token_soup(rng, n):
    out = []
    for _ in range(n):
        out.append(rng.choice(ALL_TOKENS))
        r = rng.random()
        out.append(" " if r < 0.7 else ("\n" if r < 0.9 else ""))
    return "".join(out)


CONTEXTS = {
    "top": ("", "\n"),
    "body": ("fn main()\n{\n\tvar x: i32 = 1;\n\t", "\n}\n"),
    "expr": ("fn main() -> i32\n{\n\tvar x: i32 = 1;\n\tvar y: i32 = ", ";\n\treturn: y\n}\n"),
}

SEQ_ALPHABET = ["fn", "var", "const", "if", "goto", "loop", "else", "cast", "as", "import", "pub", "extern",
                "struct", "word8", "i32", "u8", "bool", "void",
                "(", ")", "{", "}", "[", "]", "<", "|", "&", "!", "_", "+", "-", "*", ":", ";", ".", ",", "=",
                "==", "<<", "->", "|:", "..",
                "0", "1u8", "true", "'a'", '"s"', "x", "foo", "Foo", "return", "print!", "end"]

SEQ_ALPHABET_SMALL = ["fn", "var", "if", "goto", "loop", "else", "as", "struct", "i32",
                      "(", ")", "{", "}", "[", "]", "&", "-", ":", ";", ",", "=", "==", "|", "0", "x", "Foo"]


def all_sequences(alphabet, n):
    if n == 0:
        yield []
        return
    for prefix in all_sequences(alphabet, n - 1):
        for t in alphabet:
            yield prefix + [t]


NEST_CONSTRUCTS = ["paren", "block", "if", "elseif", "ptrtype", "arrtype", "addr", "member", "index", "args",
                   "unary", "array_lit", "struct_lit", "binary_left", "binary_right", "cast_chain"]


def nesting(construct, d):
    """A program that nests `construct` d deep. Need not type check."""
    if construct == "paren":
        return "fn main() -> i32\n{\n\tvar x: i32 = " + "(" * d + "1" + ")" * d + ";\n\treturn: x\n}\n"
    if construct == "block":
        return "fn main()\n{\n" + "{" * d + "\n" + "}" * d + "\n}\n"
    if construct == "if":
        return "fn main()\n{\n\tvar x: i32 = 1;\n" + "if x == 1 {\n" * d + "x = 2;\n" + "}\n" * d + "}\n"
    if construct == "elseif":
        s = "fn main()\n{\n\tvar x: i32 = 1;\n\tif x == 0 { x = 1; }\n"
        s += "".join("\telse if x == %d { x = 2; }\n" % (i + 1) for i in range(d))
        return s + "}\n"
    if construct == "ptrtype":
        return "fn foo(x: " + "&" * d + "i32);\n"
    if construct == "arrtype":
        return "fn foo(x: &" + "[2]" * d + "i32);\n"
    if construct == "addr":
        return "fn main()\n{\n\tvar x: i32 = 1;\n\tvar y = " + "&" * d + "x;\n}\n"
    if construct == "member":
        return "fn main()\n{\n\tvar x: i32 = 1;\n\tvar y = x" + ".a" * d + ";\n}\n"
    if construct == "index":
        return "fn main()\n{\n\tvar x: i32 = 1;\n\tvar y = x" + "[0]" * d + ";\n}\n"
    if construct == "args":
        return "fn main()\n{\n\tvar x: i32 = " + "f(" * d + "1" + ")" * d + ";\n}\nfn f(a: i32) -> i32\n{\n\treturn: a\n}\n"
    if construct == "unary":
        return "fn main()\n{\n\tvar x: i32 = " + "-" * d + "1;\n}\n"
    if construct == "array_lit":
        return "fn main()\n{\n\tvar x = " + "[" * d + "1" + "]" * d + ";\n}\n"
    if construct == "struct_lit":
        return "fn main()\n{\n\tvar x = " + "Foo { a: " * d + "1" + " }" * d + ";\n}\n"
    if construct == "binary_left":
        return "fn main()\n{\n\tvar x: i32 = 1" + " + 1" * d + ";\n}\n"
    if construct == "binary_right":
        return "fn main()\n{\n\tvar x: i32 = " + "1 + (" * d + "1" + ")" * d + ";\n}\n"
    if construct == "cast_chain":
        return "fn main()\n{\n\tvar x: i32 = 1" + " as i64 as i32" * d + ";\n}\n"
    raise ValueError(construct)


def size_stress(kind, n):
    if kind == "decls":
        return "".join("const C%d: i32 = %d;\n" % (i, i) for i in range(n))
    if kind == "stmts":
        return "fn main()\n{\n\tvar x: i32 = 0;\n" + "\tx = x + 1;\n" * n + "}\n"
    if kind == "fns":
        return "".join("fn f%d() -> i32\n{\n\treturn: %d\n}\n" % (i, i) for i in range(n))
    if kind == "array":
        return "const A: [%d]i32 = [" % n + ", ".join("1" for _ in range(n)) + "];\n"
    if kind == "args":
        return ("fn f(" + ", ".join("a%d: i32" % i for i in range(n)) + ") -> i32\n{\n\treturn: a0\n}\n"
                "fn main() -> i32\n{\n\tvar r: i32 = f(" + ", ".join("1" for _ in range(n)) + ");\n\treturn: r\n}\n")
    if kind == "labels":
        return "fn main()\n{\n" + "".join("\tl%d:\n" % i for i in range(n)) + "}\n"
    if kind == "string":
        return 'fn main()\n{\n\tvar s: []char8 = "' + "a" * n + '";\n}\n'
    if kind == "members":
        return "struct S\n{\n" + "".join("\tm%d: i32,\n" % i for i in range(n)) + "}\n"
    raise ValueError(kind)


def module_sets(rng):
    """Hand-built and corpus-derived multi-module sets."""
    out = []
    a = "import \"b.pn\";\nfn main() -> i32\n{\n\tvar r: i32 = twice(4);\n\treturn: r\n}\n"
    b = "pub fn twice(x: i32) -> i32\n{\n\treturn: x + x\n}\n"
    out.append([("a.pn", a), ("b.pn", b)])
    out.append([("b.pn", b), ("a.pn", a)])
    out.append([("a.pn", "import \"a.pn\";\nfn main() {}\n")])
    out.append([("a.pn", "import \"b.pn\";\nfn main() {}\n"), ("b.pn", "import \"a.pn\";\npub fn f() {}\n")])
    out.append([("a.pn", "import \"missing.pn\";\nfn main() {}\n")])
    out.append([("a.pn", "import \"core:text\";\nfn main() {}\n")])
    out.append([("a.pn", "import \"vendor:libc\";\nfn main() {}\n")])
    out.append([("a.pn", "fn helper() -> i32 { return: 1 }\nfn main() -> i32 { var x: i32 = helper(); return: x }\n"),
                ("b.pn", "fn helper() -> i32 { return: 2 }\npub fn other() -> i32 { var x: i32 = helper(); return: x }\n")])
    out.append([("a.pn", "const K: i32 = 1;\nfn main() -> i32 { return: K }\n"),
                ("b.pn", "const K: i64 = 2;\npub fn other() -> i64 { return: K }\n")])
    # includes a directory: penne gathers core:/vendor: sources itself only in main.rs; here file names only
    files = corpus()
    for _ in range(3):
        (pa, ta), (pb, tb) = rng.choice(files), rng.choice(files)
        out.append([(pa, ta), (pb if pb != pa else pb + "2", tb)])
    return out


IMPORT_RE = re.compile(r'(?m)^import\s+"([^"]+)";')


def import_closure(relpath, text):
    """[(key, text)] of a corpus file and everything it (transitively) imports, keyed the way
    main.rs keys compilation units (relative paths; `core:` / `vendor:` URIs for included sources)."""
    out = []
    seen = set()

    def add(key, txt, base_dir, scheme):
        if key in seen:
            return True
        seen.add(key)
        out.append((key, txt))
        for imp in IMPORT_RE.findall(txt):
            if imp.startswith("core:") or imp.startswith("vendor:"):
                sch, sub = imp.split(":", 1)
                path = os.path.join(common.REPO, sch, sub)
                t = common.read_text(path) if os.path.isfile(path) else None
                if t is None:
                    return False
                if not add(imp, t, os.path.dirname(path), sch):
                    return False
            else:
                path = os.path.normpath(os.path.join(base_dir, imp))
                t = common.read_text(path) if os.path.isfile(path) else None
                if t is None:
                    return False
                if scheme:
                    k = scheme + ":" + os.path.relpath(path, os.path.join(common.REPO, scheme))
                else:
                    k = os.path.relpath(path, common.REPO)
                if not add(k, t, os.path.dirname(path), scheme):
                    return False
        return True

    ok = add(relpath, text, os.path.dirname(os.path.join(common.REPO, relpath)), None)
    return out if ok else None


def corpus_import_sets():
    """Corpus files that import something, with their import closure."""
    sets = []
    for rel, text in corpus():
        if IMPORT_RE.search(text):
            cl = import_closure(rel, text)
            if cl and len(cl) > 1:
                sets.append(cl)
    return sets
