"""C05 - no variable is used out of scope, shadowed, or with its declaration skipped.

Three monitors over exhaustive small bodies and random larger ones (all C04-legal):
 1. soundness, path based: an accepted program must have no CFG path reaching a use without its declaration;
 2. verdict table from docs/errors.md (E402, E422/E424, E482);
 3. dynamic witness: accepted programs are executed and compared with the reference interpreter."""
import itertools
import json

from . import common, gen_prog, gen_scope, interp, models
from .common import HELD, VIOLATED, INCONCLUSIVE
from .gen_scope import I32, X, lit, cond_true

PROP = "C05"


def V(n, k):
    return ("var", n, I32, lit(k))


def U(n):
    return ("assign", ("x", ()), ("bin", I32, "+", X, ("read", I32, (n, ()))))


ATOMS_A = [V("v", 1), V("w", 2), U("v"), U("w"), ("label", "a"), ("goto", "a"), ("if", cond_true(), ("goto", "a"), None)]
ATOMS_B = [V("v", 1), U("v"), ("label", "a"), ("label", "b"), ("goto", "a"), ("goto", "b"),
           ("if", cond_true(), ("goto", "b"), None)]


def compile_src(src, want_ir=True):
    return common.call({"op": "alpha_compile", "files": [{"path": "body.pn", "src": src}],
                        "ir": want_ir, "module_ir": False}, build="chk", timeout=60)


def make_program(body, variant):
    """variant 0: body in main.  1: body in f(v: i32) called from main (parameter named v).
    2: module constant named w."""
    params, consts = [], []
    p = gen_prog.Program()
    if variant == 2:
        p.consts = [{"name": "w", "ty": I32, "expr": lit(5)}]
        consts = ["w"]
    if variant == 3:
        # a parameter may not reuse the name of a module constant (E424), wherever the constant is declared
        p.consts = [{"name": "w", "ty": I32, "expr": lit(5)}]
        consts = ["w"]
        f = {"name": "f", "params": [("w", I32, "val")], "ret": I32,
             "body": [("var", "x", I32, lit(0))] + list(body), "ret_expr": X, "effectful": False, "index": 0}
        m = {"name": "main", "params": [], "ret": I32, "body": [], "ret_expr": ("call", I32, "f", [lit(3)]),
             "effectful": False, "index": 1}
        p.funcs = [f, m]
        p.decl_order = [0, 1, 2] if len(body) % 2 else [1, 2, 0]
        params = ["w"]
        return p, params, consts
    if variant == 1:
        f = {"name": "f", "params": [("v", I32, "val")], "ret": I32,
             "body": [("var", "x", I32, lit(0))] + list(body), "ret_expr": X, "effectful": False, "index": 0}
        m = {"name": "main", "params": [], "ret": I32, "body": [], "ret_expr": ("call", I32, "f", [lit(3)]),
             "effectful": False, "index": 1}
        p.funcs = [f, m]
        params = ["v"]
    else:
        m = {"name": "main", "params": [], "ret": I32, "body": [("var", "x", I32, lit(0))] + list(body),
             "ret_expr": X, "effectful": False, "index": 0}
        p.funcs = [m]
    return p, params, consts


def check_body(body, variant=0):
    prog, params, consts = make_program(body, variant)
    full = [("var", "x", I32, lit(0))] + list(body)
    found = models.variable_model(full, params=params, consts=consts, ret_expr=X, detailed=True)
    if variant == 3:
        found = [(0, 424, "w")] + list(found)      # the parameter clash comes first; later findings about `w` are allowed, not required
    lexical = set(c for _p, c, _n in found)
    required = models.first_codes_per_name(found)
    paths = models.definitely_declared(full, params=params, consts=consts, ret_expr=X)
    path_skip = any(r.startswith("a path") for _v, r in paths)
    src = gen_prog.to_source(prog)
    must_reject = bool(lexical - ({482} if not path_skip else set())) or bool(paths)
    kind, r = compile_src(src, want_ir=True)
    replay = {"source": src, "lexical_model": sorted(lexical), "path_problems": paths[:4], "variant": variant}
    cov = {"model:" + (",".join(map(str, sorted(lexical))) or "accept"): 1, "variant_%d" % variant: 1}
    if kind == "crash":
        return {"verdict": VIOLATED, "sig": "compiler crash: " + r.signature(), "detail": r.to_json(), "replay": replay, "cov": cov}
    if kind == "panic":
        return {"verdict": VIOLATED, "sig": common.panic_signature(r), "detail": r, "replay": replay, "cov": cov}
    if r["status"] == "anyhow":
        return {"verdict": VIOLATED, "sig": "failure without diagnostic", "detail": r, "replay": replay, "cov": cov}
    accepted = r["status"] == "ok"
    observed = set(e["code"] for e in r.get("errors", [])) if not accepted else set()
    rel = observed & {402, 422, 424, 482}
    replay["observed_codes"] = sorted(observed)
    # monitor 1: soundness
    if accepted and paths:
        return {"verdict": VIOLATED, "sig": "accepted although a path reaches a use without its declaration",
                "detail": paths[:3], "replay": replay, "cov": cov}
    # monitor 2: verdict table
    want = set(lexical)
    problems = []
    for code in (402, 422, 424):
        if code in required and code not in rel:
            problems.append("E%d missing" % code)
        if code in rel and code not in want:
            problems.append("E%d unexpected" % code)
    if path_skip and 482 in required and 482 not in rel:
        problems.append("E482 missing (a feasible jump skips a declaration that is used)")
    if 482 in rel and 482 not in want:
        problems.append("E482 unexpected (no documented ground applies)")
    if 482 in want and 482 not in rel:
        if path_skip:
            pass  # already reported above
        else:
            cov["lexical_only_482_not_raised"] = 1      # unreachable goto: either verdict satisfies the property
    extra = observed - {402, 422, 424, 482}
    if extra:
        problems.append("codes outside the scoping rules: %s" % sorted(extra))
    if not want and not paths and not accepted and not problems:
        problems.append("rejected although no rule applies")
    if problems:
        return {"verdict": VIOLATED, "sig": "verdict table: " + "; ".join(problems),
                "detail": {"model": sorted(want), "observed": sorted(observed), "paths": paths[:3]},
                "replay": replay, "cov": cov}
    if accepted:
        try:
            _out, status, trace = interp.run_program(prog, step_limit=5000)
        except interp.Undefined as u:
            if "unknown variable" in str(u) or "uninit" in str(u):
                return {"verdict": VIOLATED, "sig": "accepted program reads an undeclared variable on the executed path",
                        "detail": str(u), "replay": replay, "cov": cov}
            return {"verdict": INCONCLUSIVE, "detail": "reference interpreter: " + str(u), "cov": cov}
        res = common.run_lli(r["ir"], timeout=20)
        cov["executed"] = 1
        if res["status"] != "ok" or res["code"] != status:
            replay["expected_status"] = status
            return {"verdict": VIOLATED, "sig": "accepted program computes a different value than its declarations prescribe",
                    "detail": {"expected_status": status, "observed": res["code"], "lli": res["status"]},
                    "replay": replay, "cov": cov}
    return {"verdict": HELD, "cov": cov,
            "nt": ("acc:" if accepted else "rej%s:" % sorted(rel)) + shape(body) + ":%d" % variant}


def shape(stmts):
    out = ""
    for s in stmts:
        k = s[0]
        if k == "var":
            out += "D" + s[1]
        elif k == "assign":
            out += "U" + s[2][4][2][0] if s[2][0] == "bin" and s[2][4][0] == "read" else "="
        elif k == "label":
            out += "L"
        elif k == "goto":
            out += "G"
        elif k == "if":
            out += "I"
            for br in (s[2], s[3]):
                if br is not None and br[0] == "block":
                    out += "{" + shape(br[1]) + "}"
                elif br is not None and br[0] == "if":
                    out += shape([br])
        elif k == "block":
            out += "{" + shape(s[1]) + "}"
    return out


def multigoto_bodies():
    ifgoto = ("if", cond_true(), ("goto", "a"), None)
    alphabet = [ifgoto, V("v", 1), U("v"), ("block", [V("v", 1)]), ("block", [U("v")])]
    # ... and with one of the gotos inside a nested block that has zero to three locals of its own
    nested = [("block", [ifgoto]), ("block", [V("w", 2), ifgoto]), ("block", [V("w", 2), V("u", 4), ifgoto]),
              ("block", [V("w", 2), V("u", 4), V("t", 8), ifgoto, U("w")])]
    for nb in nested:
        for mid in ([V("v", 1)], [V("v", 1), U("v")], [V("w", 2), V("v", 1)], [("block", [V("w", 2)]), V("v", 1)]):
            for second in (ifgoto, ("block", [ifgoto]), ("block", [V("w", 2), ifgoto])):
                for tail in ([U("v")], [("block", [U("v")])], []):
                    yield [nb] + list(mid) + [second, ("label", "a")] + list(tail)
                    yield [second] + list(mid) + [nb, ("label", "a")] + list(tail)
    for k in range(1, 6):
        for combo in itertools.product(alphabet, repeat=k):
            if sum(1 for st in combo if st[0] == "if") < 2:
                continue
            for tail in ([U("v")], []):
                yield list(combo) + [("label", "a")] + tail


def skip_then_noise_bodies():
    """A conditional goto that may skip a declaration, the label, and then every single scope-opening statement at every
    position (also inside a block holding the use) before a use of the variable: the use stays illegal whatever was
    opened and closed in between."""
    ifgoto = ("if", cond_true(), ("goto", "a"), None)
    heads = [[ifgoto, V("v", 1)], [ifgoto, V("v", 1), U("v")], [V("w", 2), ifgoto, V("v", 1)], [ifgoto, ("block", [V("w", 2)]), V("v", 1)]]
    tails = [[U("v")], [("block", [U("v")])], [("block", [("block", [U("v")])])], [U("w"), U("v")], []]
    for h in heads:
        for t in tails:
            base = h + [("label", "a")] + t
            yield base
            for noisy in gen_scope.all_single_noise(base):
                yield noisy


def two_label_bodies():
    """A goto to a first label skips a declaration; gotos to a second label in the same block follow the declaration; the
    variable is used after the second label: what was pruned at the first label stays pruned."""
    ga = [("goto", "a"), ("if", cond_true(), ("goto", "a"), None)]
    gb = [[], [("goto", "b")], [("if", cond_true(), ("goto", "b"), None)], [("if", cond_true(), ("goto", "b"), None), ("if", cond_true(), ("goto", "b"), None)]]
    for g1 in ga:
        for decl in ([V("v", 1)], [V("v", 1), U("v")], [V("w", 2), V("v", 1)]):
            for between in gb:
                for tail in ([U("v")], [("block", [U("v")])], [U("w"), U("v")] if len(decl) == 2 and decl[0][1] == "w" else [U("v"), U("v")]):
                    yield [g1] + list(decl) + [("label", "a")] + list(between) + [("label", "b")] + list(tail)
                    # the second label's gotos before the first label as well
                    yield list(between) + [g1] + list(decl) + [("label", "a"), ("label", "b")] + list(tail)


def run_module_chain():
    """Scope across modules: a module sees the public constants of the files it imports and of no other file, however the files
    are ordered and whatever the imported files import themselves (chains of 3 and 4 modules, diamond)."""
    import itertools
    from . import c12
    limits = "pub const limit: i32 = 20;\n"
    clamp = "import \"limits.pn\";\n\npub fn clamp(x: i32) -> i32\n{\n\tvar r: i32 = x;\n\tif x > limit\n\t{\n\t\tr = limit;\n\t}\n\treturn: r\n}\n"
    relay = "import \"clamp.pn\";\n\npub fn relay(x: i32) -> i32\n{\n\treturn: clamp(x)\n}\n"
    other = "import \"limits.pn\";\n\npub fn twice() -> i32\n{\n\treturn: limit + limit\n}\n"
    mains = {
        "shadow": ("import \"%s\";\n\nfn main() -> i32\n{\n\tvar limit: i32 = 13;\n\treturn: %s(limit)\n}\n", ("ok", 13)),
        "shadow_param": ("import \"%s\";\n\nfn pick(limit: i32) -> i32\n{\n\treturn: %s(limit)\n}\n\nfn main() -> i32\n{\n\treturn: pick(13)\n}\n", ("ok", 13)),
        "own_constant": ("import \"%s\";\n\nconst limit: i32 = 13;\n\nfn main() -> i32\n{\n\treturn: %s(limit)\n}\n", ("ok", 13)),
        "leak": ("import \"%s\";\n\nfn main() -> i32\n{\n\treturn: %s(limit)\n}\n", ("rejected", 402)),
        "imported": ("import \"%s\";\nimport \"limits.pn\";\n\nfn main() -> i32\n{\n\treturn: %s(limit + 5)\n}\n", ("ok", 20)),
    }
    out = []
    for mname, (tmpl, (want, value)) in mains.items():
        for cname, via, fn, extra in (("chain3", "clamp.pn", "clamp", []), ("chain4", "relay.pn", "relay", [("relay.pn", relay)]),
                                      ("diamond", "clamp.pn", "clamp", [("other.pn", other)])):
            files = [("main.pn", tmpl % (via, fn)), ("clamp.pn", clamp), ("limits.pn", limits)] + extra
            for order in itertools.permutations(files):
                got = c12.outcome(list(order))
                replay = {"files": [list(f) for f in order], "expected": [want, value]}
                cov = {"module_chain_orders": 1}
                if got[0] == "crash":
                    out.append({"verdict": VIOLATED, "sig": "module chain (%s): %s" % (mname, got[1]), "detail": got[1], "replay": replay, "cov": cov})
                elif want == "ok" and got[0] != "ok":
                    out.append({"verdict": VIOLATED, "sig": "legal use of a name rejected with %s: a constant of a file that is not imported "
                                "is in scope (%s, %s)" % (list(got[1]), mname, cname), "detail": list(got[1]), "replay": replay, "cov": cov})
                elif want == "ok" and got[1][1] != value:
                    out.append({"verdict": VIOLATED, "sig": "name resolves to a different declaration across modules (%s, %s)" % (mname, cname),
                                "detail": {"expected": value, "observed": got[1][1]}, "replay": replay, "cov": cov})
                elif want == "rejected" and (got[0] != "rejected" or value not in got[1]):
                    out.append({"verdict": VIOLATED, "sig": "constant of a file that is not imported is usable (%s)" % cname
                                if got[0] == "ok" else "wrong codes %s for a constant that is not imported (%s)" % (list(got[1]), cname),
                                "detail": repr(got[:2])[:200], "replay": replay, "cov": cov})
                else:
                    out.append({"verdict": HELD, "nt": "modchain:%s:%s" % (mname, cname), "cov": cov})
    return out


def run_case(case):
    kind = case[0]
    out = []
    if kind == "modchain":
        return run_module_chain()
    if kind == "enum":
        _, which, size, depth, idx, n = case
        atoms = ATOMS_A if which == "A" else ATOMS_B
        i = 0
        for b in gen_scope.seqs(size, depth, atoms, None, {}):
            if models.goto_model(b, True):
                continue        # keep C04 and C05 from masking each other
            i += 1
            if i % n != idx:
                continue
            variant = 0 if i % 4 else (1 + (i // 4) % 3)
            res = check_body(b, variant)
            res.setdefault("cov", {})["enum_%s_size_%d" % (which, size)] = 1
            if size >= 2 and i % 2 == 0:
                # the same body with statements inserted that declare nothing and jump nowhere
                nrng = common.rng_for(size, PROP, "noise", which, i)
                noisy = gen_scope.insert_noise(nrng, b, nrng.choice([1, 1, 2]))
                res2 = check_body(noisy, variant)
                res2.setdefault("cov", {})["noise_variants"] = 1
                out.append(res2)
            if size >= 2 and (i // n) % 16 == 5:
                # ... and, for every 16th body, with each kind of such a statement at each position
                for noisy in gen_scope.all_single_noise(list(b)):
                    res3 = check_body(noisy, variant)
                    res3.setdefault("cov", {})["systematic_noise_variants"] = 1
                    out.append(res3)
            if i % 1009 == 1 and res["verdict"] == HELD:
                res["sample"] = {"body": gen_prog.to_source(make_program(b, variant)[0]),
                                 "model": sorted(models.variable_model([("var", "x", I32, lit(0))] + b, ret_expr=X))}
            out.append(res)
        return out
    if kind == "multigoto":
        # several gotos to one label with declarations and uses between them, then the label and a use:
        # all sequences of <= 5 statements over {if..goto a, var v, use v, {var v}, {use v}} + `a:` + {use v, nothing}
        _, idx, n = case
        for i, body in enumerate(multigoto_bodies()):
            if i % n != idx:
                continue
            res = check_body(body, 0)
            res.setdefault("cov", {})["multigoto_bodies"] = 1
            out.append(res)
        return out
    if kind == "twolabels":
        _, idx, n = case
        for i, body in enumerate(two_label_bodies()):
            if i % n != idx:
                continue
            if models.goto_model(body, True):
                continue
            res = check_body(body, 0)
            res.setdefault("cov", {})["two_label_bodies"] = 1
            out.append(res)
        return out
    if kind == "skipnoise":
        _, idx, n = case
        for i, body in enumerate(skip_then_noise_bodies()):
            if i % n != idx:
                continue
            if models.goto_model(body, True):
                continue
            res = check_body(body, 0)
            res.setdefault("cov", {})["skip_then_noise_bodies"] = 1
            out.append(res)
        return out
    if kind == "random":
        _, seed, i = case
        rng = common.rng_for(seed, PROP, "random", i)
        for _ in range(20):
            b = gen_scope.random_body(rng, rng.randrange(3, 12), 3, ["a", "b", "c"], with_vars=["v", "w", "u", "t"])
            if not models.goto_model(b, True):
                break
        else:
            return {"verdict": None}
        res = check_body(b, rng.choice([0, 0, 1, 2]))
        res.setdefault("cov", {})["random"] = 1
        return res
    raise ValueError(kind)


def replay_file(path):
    with open(path) as f:
        data = json.load(f)
    rp = data["replay"]
    common.ensure_worker("chk")
    kind, r = compile_src(rp["source"])
    observed = sorted(set(e["code"] for e in r.get("errors", []))) if kind == "resp" else None
    print("observed now:", kind, observed, "was:", rp.get("observed_codes"), "model:", rp.get("lexical_model"))
    if kind == "resp" and observed != rp.get("observed_codes"):
        print("replay: behaviour changed; re-run the check to judge")
        return 0
    print("VIOLATION property=%s replay=%s" % (PROP, path))
    return 1


def main(tier, seed, replay=None):
    if replay:
        return replay_file(replay)
    common.ensure_worker("chk")
    run = common.Run(PROP, tier, seed)
    max_size = 4 if tier == "quick" else 5
    n = common.NPROC
    cases = []
    for which in ("A", "B"):
        for size in range(0, max_size + 1):
            shards = 1 if size <= 2 else n
            for idx in range(shards):
                cases.append(("enum", which, size, 3, idx, shards))
    cases += [("multigoto", idx, n) for idx in range(n)]
    cases += [("skipnoise", idx, n) for idx in range(n)]
    cases += [("twolabels", idx, n) for idx in range(n)]
    cases.append(("modchain",))
    nrand = 1500 if tier == "quick" else 60000
    cases += [("random", seed, i) for i in range(nrand)]
    for r in common.run_sharded(run_case, cases):
        if r.get("verdict") is None and "harness_error" not in r:
            continue
        run.feed(r)
    run.assumptions = [
        "lexical rules from docs/errors.md (E402, E422, E482) and docs/features.md; bodies are C04-legal so that label errors cannot mask variable errors",
        "for gotos that no path reaches, E482 may or may not be raised: only soundness (path based) and 'documented ground present' are asserted there",
        "conditions are treated as feasible both ways in the path analysis",
    ]
    return run.finish(
        rule="exhaustive: all C04-legal bodies with <= %d statement nodes over {var v, var w, x=x+v, x=x+w, a:, goto a, if..goto a, {..}} and a "
             "second alphabet with two labels, block depth <= 3; every 4th with a parameter or constant named like a variable; plus %d random "
             "bodies with if/else blocks and 4 variables. distinct_nontrivial = distinct (verdict, statement shape, variant)" % (max_size, nrand),
        exhaustive=True, min_evaluations=1000)
