"""Shared infrastructure of the penne verification framework.

Builds, worker processes (the only code that calls penne), crash
classification, sharding, verdict bookkeeping, known findings, replay files
and evidence.  Python 3.11, standard library only.
"""
import fcntl
import hashlib
import json
import multiprocessing
import os
import random
import resource
import select
import signal
import subprocess
import sys
import tempfile
import time
import traceback

VERIF = os.path.dirname(os.path.dirname(os.path.abspath(__file__)))
REPO = os.environ.get("PV_REPO", "/repo")
TARGET = os.path.join(VERIF, "target")
SHIM = os.path.join(VERIF, "tools", "llvm-shim")
EVIDENCE_DIR = os.path.join(VERIF, "evidence")
REPLAY_DIR = os.path.join(VERIF, "replays")
KNOWN_FINDINGS = os.path.join(VERIF, "known_findings.json")
NPROC = int(os.environ.get("PV_NPROC", "16"))
LLI = "lli-14"
LLVM_AS = "llvm-as-14"
OPT = "opt-14"

HELD, VIOLATED, INCONCLUSIVE = "held", "violated", "inconclusive"


class HarnessError(Exception):
    """The machinery itself failed (build, tool missing ...): exit 2, never a VIOLATION."""


# --------------------------------------------------------------------------
# builds


def _build_env(extra_rustflags=""):
    env = dict(os.environ)
    env["PATH"] = SHIM + os.pathsep + env.get("PATH", "")
    env["CARGO_NET_OFFLINE"] = "true"
    env["RUSTFLAGS"] = ("--cfg penne_verif --check-cfg cfg(penne_verif) " + extra_rustflags).strip()
    env.pop("RUSTC_WRAPPER", None)
    return env


def _locked(name):
    os.makedirs(TARGET, exist_ok=True)
    f = open(os.path.join(TARGET, "." + name + ".lock"), "w")
    fcntl.flock(f, fcntl.LOCK_EX)
    return f


def _run_build(cmd, cwd, env, what):
    t0 = time.time()
    p = subprocess.run(cmd, cwd=cwd, env=env, stdout=subprocess.PIPE, stderr=subprocess.STDOUT, text=True)
    if p.returncode != 0:
        tail = "\n".join(p.stdout.splitlines()[-60:])
        raise HarnessError("build of %s failed:\n%s" % (what, tail))
    return time.time() - t0


def worker_path(build):
    if build == "chk":
        return os.path.join(TARGET, "worker", "debug", "pv-worker")
    if build == "rel":
        return os.path.join(TARGET, "worker", "release", "pv-worker")
    if build == "asan":
        return os.path.join(TARGET, "worker-asan", "x86_64-unknown-linux-gnu", "debug", "pv-worker")
    raise HarnessError("unknown build " + build)


_built = set()


def ensure_worker(build="chk"):
    """(Re)build the worker from /repo's current working tree. Incremental."""
    if build in _built:
        return worker_path(build)
    lock = _locked("worker-" + build)
    try:
        cwd = os.path.join(VERIF, "worker")
        lockfile = os.path.join(cwd, "Cargo.lock")
        if not os.path.exists(lockfile):
            import shutil
            shutil.copy(os.path.join(REPO, "Cargo.lock"), lockfile)
        if build == "chk":
            env = _build_env()
            env["CARGO_TARGET_DIR"] = os.path.join(TARGET, "worker")
            _run_build(["cargo", "build", "--offline"], cwd, env, "pv-worker (chk)")
        elif build == "rel":
            env = _build_env()
            env["CARGO_TARGET_DIR"] = os.path.join(TARGET, "worker")
            _run_build(["cargo", "build", "--offline", "--release"], cwd, env, "pv-worker (rel)")
        elif build == "asan":
            env = _build_env("-Zsanitizer=address -Cforce-frame-pointers=yes")
            env["CARGO_TARGET_DIR"] = os.path.join(TARGET, "worker-asan")
            _run_build(["cargo", "+nightly", "build", "--offline", "--target", "x86_64-unknown-linux-gnu"],
                       cwd, env, "pv-worker (asan)")
        else:
            raise HarnessError("unknown build " + build)
    finally:
        lock.close()
    _built.add(build)
    return worker_path(build)


def penne_bin_path():
    return os.path.join(TARGET, "penne", "release", "penne")


def ensure_penne_bin():
    """The real `penne` binary with the first-generation compiler enabled."""
    if "penne" in _built:
        return penne_bin_path()
    lock = _locked("penne")
    try:
        env = _build_env()
        env["CARGO_TARGET_DIR"] = os.path.join(TARGET, "penne")
        _run_build(["cargo", "build", "--offline", "--release", "--features", "alpha,llvm-sys",
                    "--manifest-path", os.path.join(REPO, "Cargo.toml"), "--bin", "penne"],
                   REPO, env, "penne binary")
    finally:
        lock.close()
    _built.add("penne")
    return penne_bin_path()


# --------------------------------------------------------------------------
# worker processes


def _limit_stack():
    try:
        resource.setrlimit(resource.RLIMIT_STACK, (8 * 1024 * 1024, 8 * 1024 * 1024))
    except Exception:
        pass
    try:
        resource.setrlimit(resource.RLIMIT_CORE, (0, 0))
    except Exception:
        pass


class Crash:
    """The worker died or hung while answering one request."""

    def __init__(self, kind, detail, stderr_tail=""):
        self.kind = kind          # llvm_abort | stack_overflow | signal | hang | exit | sanitizer
        self.detail = detail      # first informative line
        self.stderr_tail = stderr_tail

    def signature(self):
        return "%s: %s" % (self.kind, self.detail)

    def to_json(self):
        return {"kind": self.kind, "detail": self.detail, "stderr_tail": self.stderr_tail[-2000:]}


class Worker:
    def __init__(self, build="chk", extra_env=None, wrapper=None):
        self.build = build
        self.path = worker_path(build)
        self.extra_env = dict(extra_env or {})
        if build == "asan":
            # leaks are not a property here (LLVMGetDefaultTargetTriple leaks 20 bytes once per process)
            self.extra_env.setdefault("ASAN_OPTIONS", "detect_leaks=0:halt_on_error=1:abort_on_error=0")
        self.wrapper = wrapper or []
        self.proc = None
        self.errfile = None
        self.buf = b""
        self.restarts = 0

    def start(self):
        self.stop()
        self.errfile = tempfile.TemporaryFile()
        env = dict(os.environ)
        env["LC_ALL"] = "C"
        env.update(self.extra_env)
        self.proc = subprocess.Popen(self.wrapper + [self.path], stdin=subprocess.PIPE, stdout=subprocess.PIPE,
                                     stderr=self.errfile, env=env, preexec_fn=_limit_stack, bufsize=0)
        self.buf = b""

    def stop(self):
        if self.proc is not None:
            try:
                self.proc.stdin.close()
            except Exception:
                pass
            try:
                self.proc.kill()
            except Exception:
                pass
            try:
                self.proc.wait(timeout=5)
            except Exception:
                pass
            try:
                self.proc.stdout.close()
            except Exception:
                pass
            self.proc = None
        if self.errfile is not None:
            try:
                self.errfile.close()
            except Exception:
                pass
            self.errfile = None

    def _stderr_tail(self):
        try:
            self.errfile.seek(0, 2)
            size = self.errfile.tell()
            self.errfile.seek(max(0, size - 8000))
            return self.errfile.read().decode("utf-8", "replace")
        except Exception:
            return ""

    def _classify_death(self, rc):
        tail = self._stderr_tail()
        lines = [l for l in tail.splitlines() if l.strip()]
        if "AddressSanitizer" in tail or "ERROR: LeakSanitizer" in tail:
            if "AddressSanitizer: SEGV" in tail or "AddressSanitizer: stack-overflow" in tail:
                # the sanitizer's signal handler reporting an ordinary crash: same verdict as on the native build
                if "stack-overflow" in tail:
                    return Crash("stack_overflow", "main thread overflowed its stack", tail)
                return Crash("signal", "SIGSEGV", tail)
            import re as _re
            first = next((l for l in lines if "ERROR: AddressSanitizer" in l), "AddressSanitizer report")
            first = _re.sub(r"0x[0-9a-f]+|\b\d+\b|==", "", first).strip()
            frame = _re.search(r"(src/(?:alpha|delta)/[A-Za-z0-9_/]+\.rs)", tail)
            return Crash("sanitizer", "%s (%s)" % (first[:200], frame.group(1) if frame else "?"), tail)
        if "has overflowed its stack" in tail:
            return Crash("stack_overflow", "main thread overflowed its stack", tail)
        llvm = [l for l in lines if not l.startswith("PV-PANIC")]
        if rc == -signal.SIGABRT or any("LLVM ERROR" in l for l in lines):
            # the verifier prints its complaints (unindented lines) before "LLVM ERROR: Broken ... found";
            # the first complaint identifies the defect better than the generic last line
            msgs = [l for l in llvm if not l.startswith(" ") and "LLVM ERROR" not in l
                    and not l.startswith("warning: Linking two modules of different target triples")]
            last = next((l for l in reversed(llvm) if "LLVM ERROR" in l), None)
            if last is not None and "LLVM ERROR" in last:
                last = last[last.index("LLVM ERROR"):]
            first = msgs[0] if msgs else (last or (llvm[0] if llvm else "abort"))
            detail = abstract_llvm_message(first.strip())[:200]
            if msgs and last:
                detail += " / " + last.strip()[:80]
            return Crash("llvm_abort", detail, tail)
        if rc is not None and rc < 0:
            if rc == -signal.SIGSEGV:
                return Crash("signal", "SIGSEGV", tail)
            return Crash("signal", "signal %d" % (-rc), tail)
        errs = [l for l in llvm if l.startswith("error:") or "rror:" in l]
        pick = errs[-1] if errs else (llvm[-1] if llvm else "")
        first = abstract_llvm_message(pick.strip())[:200]
        return Crash("exit", "exit status %s: %s" % (rc, first), tail)

    def request(self, req, timeout=30.0):
        """Returns (response_dict, None) or (None, Crash)."""
        if self.proc is None or self.proc.poll() is not None:
            self.start()
        data = (json.dumps(req) + "\n").encode()
        try:
            # write may block for large requests if the worker is stuck: rely on pipe buffer + select
            self._write_all(data, timeout)
        except (BrokenPipeError, OSError):
            rc = self._reap()
            crash = self._classify_death(rc)
            self.stop()
            return None, crash
        except TimeoutError:
            tail = self._stderr_tail()
            self.stop()
            return None, Crash("hang", "no answer within %.0f s" % timeout, tail)
        deadline = time.time() + timeout
        fd = self.proc.stdout.fileno()
        while True:
            nl = self.buf.find(b"\n")
            if nl >= 0:
                line = self.buf[:nl]
                self.buf = self.buf[nl + 1:]
                try:
                    return json.loads(line), None
                except Exception as e:
                    raise HarnessError("worker answered garbage: %r (%s)" % (line[:200], e))
            remaining = deadline - time.time()
            if remaining <= 0:
                tail = self._stderr_tail()
                self.stop()
                return None, Crash("hang", "no answer within %.0f s" % timeout, tail)
            r, _, _ = select.select([fd], [], [], min(remaining, 1.0))
            if r:
                chunk = os.read(fd, 1 << 20)
                if not chunk:
                    rc = self._reap()
                    crash = self._classify_death(rc)
                    self.stop()
                    return None, crash
                self.buf += chunk

    def _write_all(self, data, timeout):
        fd = self.proc.stdin.fileno()
        deadline = time.time() + timeout
        view = memoryview(data)
        os.set_blocking(fd, False)
        try:
            while len(view):
                remaining = deadline - time.time()
                if remaining <= 0:
                    raise TimeoutError()
                _, w, _ = select.select([], [fd], [], min(remaining, 1.0))
                if w:
                    try:
                        n = os.write(fd, view[:1 << 16])
                        view = view[n:]
                    except BlockingIOError:
                        pass
                elif self.proc.poll() is not None:
                    raise BrokenPipeError()
        finally:
            try:
                os.set_blocking(fd, True)
            except Exception:
                pass

    def _reap(self):
        try:
            return self.proc.wait(timeout=10)
        except Exception:
            try:
                self.proc.kill()
            except Exception:
                pass
            return None


def abstract_llvm_message(msg):
    """Abstract SSA value names / numbers so that one defect has one signature."""
    import re
    msg = re.sub(r"%[A-Za-z0-9_.]+", "%v", msg)
    msg = re.sub(r"@[A-Za-z0-9_.]+", "@g", msg)
    msg = re.sub(r"\b\d+\b", "N", msg)
    return msg


_workers = {}


def get_worker(build="chk", key=None, extra_env=None, wrapper=None):
    k = (build, key)
    w = _workers.get(k)
    if w is None:
        w = Worker(build, extra_env=extra_env, wrapper=wrapper)
        _workers[k] = w
    return w


def stop_workers():
    for w in _workers.values():
        w.stop()
    _workers.clear()


HANG_BUDGET = 2
_confirmed_hangs = 0


def call(req, build="chk", timeout=30.0, retry_alone=True):
    """One request. Returns ("resp", dict) | ("panic", dict) | ("crash", Crash).

    A hang is re-tried once with a 4x larger time limit on a fresh worker before
    it is reported (wall clock is a trigger, not a verdict)."""
    global _confirmed_hangs
    if _confirmed_hangs >= HANG_BUDGET:
        # this shard has already seen HANG_BUDGET inputs on which the compiler does not answer (each confirmed alone with a 4x
        # limit): the finding stands, and a quick run must not spend hours waiting for more of the same
        return "crash", Crash("hang", "not attempted: %d inputs of this shard already hung" % _confirmed_hangs, "")
    w = get_worker(build)
    resp, crash = w.request(req, timeout)
    if crash is not None and crash.kind == "hang" and (not retry_alone or _confirmed_hangs > 0):
        # (once a hang has been confirmed alone in this shard, later ones are taken at the first limit)
        _confirmed_hangs += 1
        return "crash", crash
    if crash is not None and crash.kind == "hang" and retry_alone:
        w2 = Worker(build)
        resp, crash2 = w2.request(req, timeout * 4)
        w2.stop()
        if crash2 is None:
            crash = None
        else:
            crash = crash2
            if crash2.kind == "hang":
                _confirmed_hangs += 1
    if crash is not None:
        return "crash", crash
    if resp.get("status") == "panic":
        return "panic", resp
    if resp.get("status") == "bad_request":
        raise HarnessError("worker rejected request: %s" % resp.get("error"))
    return "resp", resp


_src_cache = {}


def _source_site(path, line):
    """(enclosing fn name, trimmed source text) of a panic site: stable under unrelated edits."""
    try:
        if path not in _src_cache:
            with open(path, errors="replace") as f:
                _src_cache[path] = f.read().splitlines()
        lines = _src_cache[path]
        text = lines[line - 1].strip() if 0 < line <= len(lines) else "?"
        if text.endswith("(") and line + 1 < len(lines):
            # multi-line macro call: take the argument lines too
            text = (text + " ".join(l.strip() for l in lines[line:line + 2]))[:160]
        fn = "?"
        import re
        for i in range(min(line, len(lines)) - 1, -1, -1):
            m = re.match(r"\s*(?:pub(?:\([a-z]+\))?\s+)?(?:unsafe\s+)?fn\s+([A-Za-z0-9_]+)", lines[i])
            if m:
                fn = m.group(1)
                break
        return fn, text
    except Exception:
        return "?", "?"


def panic_signature(resp):
    """panic: <file>::<enclosing fn>: <source text of the panicking line>: <head of the message>.
    No line numbers (unrelated edits must not un-list a finding); payload details such as the
    Debug print of a type are cut off after the message head."""
    import re
    site = resp.get("site", "?")
    path, _, line = site.rpartition(":")
    try:
        line = int(line)
    except ValueError:
        line = 0
    f = path
    if f.startswith(REPO + "/"):
        f = f[len(REPO) + 1:]
        fn, text = _source_site(path, line)
    else:
        # panic inside a dependency or std
        if "/src/" in f:
            f = f[f.rindex("/", 0, f.index("/src/")) + 1:]
        fn, text = "?", "?"
    if "is_wellformed()" in text and text.startswith("assert!("):
        # one root cause, dozens of assertion sites: an ill-formed type (pointer to view, array of void, ...)
        # built from ill-typed input reaches one of the `assert!(x.is_wellformed())` guards
        return "panic: %s: assert!(<type>.is_wellformed())" % f
    msg = resp.get("msg", "")
    head = re.split(r"[{(\[\"':]| \d", msg, maxsplit=1)[0].strip()[:80]
    if msg.startswith("internal error") or msg.startswith("assertion") or msg.startswith("not "):
        head = re.sub(r"\d+", "N", msg.split("\n")[0])[:100]
    return "panic: %s::%s: %s: %s" % (f, fn, text[:120], head)


# --------------------------------------------------------------------------
# running emitted IR


_lli_timeouts = 0


def run_lli(ir, timeout=10.0, stdin_data=None):
    """Runs IR the way `penne run` does (`lli -`). Returns dict(status, code, stdout, stderr).
    After three programs of this shard ran into the time limit, later ones get 3 s (generated programs finish in
    milliseconds; a tree on which emitted programs loop for ever must not turn a quick run into hours)."""
    global _lli_timeouts
    if _lli_timeouts >= 3:
        timeout = min(timeout, 3.0)
    try:
        p = subprocess.run([LLI, "-"], input=ir.encode() if isinstance(ir, str) else ir,
                           stdout=subprocess.PIPE, stderr=subprocess.PIPE, timeout=timeout,
                           preexec_fn=_limit_stack)
    except subprocess.TimeoutExpired:
        _lli_timeouts += 1
        return {"status": "timeout", "code": None, "stdout": b"", "stderr": b""}
    except FileNotFoundError:
        raise HarnessError(LLI + " not found")
    if p.returncode < 0:
        return {"status": "signal", "code": p.returncode, "stdout": p.stdout, "stderr": p.stderr}
    return {"status": "ok", "code": p.returncode, "stdout": p.stdout, "stderr": p.stderr}


def llvm_judges(ir_text, tmpdir=None):
    """LLVM 14's own assembler and verifier as independent processes on the printed text.
    Returns None if both accept, else a short message."""
    data = ir_text.encode() if isinstance(ir_text, str) else ir_text
    try:
        p = subprocess.run([LLVM_AS, "-o", "/dev/null", "-"], input=data, stdout=subprocess.PIPE,
                           stderr=subprocess.PIPE, timeout=60)
    except FileNotFoundError:
        raise HarnessError(LLVM_AS + " not found")
    except subprocess.TimeoutExpired:
        return "llvm-as: timeout"
    if p.returncode != 0:
        return "llvm-as: " + first_line(p.stderr.decode("utf-8", "replace"))
    try:
        p = subprocess.run([OPT, "-passes=verify", "-disable-output", "-"], input=data, stdout=subprocess.PIPE,
                           stderr=subprocess.PIPE, timeout=60)
    except FileNotFoundError:
        raise HarnessError(OPT + " not found")
    except subprocess.TimeoutExpired:
        return "opt verify: timeout"
    if p.returncode != 0:
        return "opt verify: " + first_line(p.stderr.decode("utf-8", "replace"))
    return None


def first_line(s):
    for l in s.splitlines():
        if l.strip():
            return l.strip()[:300]
    return ""


# --------------------------------------------------------------------------
# sharded execution


def _shard_main(fn, items, idx, q, init):
    try:
        if init is not None:
            init(idx)
        out = []
        for it in items:
            try:
                res = fn(it)
                if isinstance(res, list):
                    out.extend(res)
                else:
                    out.append(res)
            except HarnessError as e:
                out.append({"harness_error": str(e)})
            except Exception:
                out.append({"harness_error": traceback.format_exc()})
            if len(out) >= 2048:
                q.put(("part", idx, out))
                out = []
        q.put(("part", idx, out))
    except Exception:
        q.put(("part", idx, [{"harness_error": traceback.format_exc()}]))
    finally:
        stop_workers()
        q.put(("done", idx, None))


def run_sharded(fn, items, nproc=None, init=None, deadline=None):
    """Runs fn over items in nproc forked processes (each owns its own workers).
    Items are dealt round-robin. Returns the list of results (order not preserved)."""
    nproc = nproc or NPROC
    items = list(items)
    if not items:
        return []
    nproc = max(1, min(nproc, len(items)))
    if nproc == 1:
        if init is not None:
            init(0)
        res = []
        for it in items:
            r = fn(it)
            if isinstance(r, list):
                res.extend(r)
            else:
                res.append(r)
        stop_workers()
        return res
    ctx = multiprocessing.get_context("fork")
    q = ctx.Queue()
    procs = []
    for i in range(nproc):
        p = ctx.Process(target=_shard_main, args=(fn, items[i::nproc], i, q, init))
        p.start()
        procs.append(p)
    results = []
    done = 0
    while done < nproc:
        try:
            kind, idx, payload = q.get(timeout=5)
        except Exception:
            if all(not p.is_alive() for p in procs):
                # drain whatever is left
                try:
                    while True:
                        kind, idx, payload = q.get_nowait()
                        if kind == "part":
                            results.extend(payload)
                        else:
                            done += 1
                except Exception:
                    pass
                break
            continue
        if kind == "part":
            results.extend(payload)
        else:
            done += 1
    for p in procs:
        p.join(timeout=10)
        if p.is_alive():
            p.kill()
    return results


# --------------------------------------------------------------------------
# known findings, replays, evidence


def load_known_findings():
    if not os.path.exists(KNOWN_FINDINGS):
        return []
    with open(KNOWN_FINDINGS) as f:
        return json.load(f).get("findings", [])


def stable_hash(obj):
    return hashlib.sha256(json.dumps(obj, sort_keys=True, default=str).encode()).hexdigest()[:16]


class Run:
    """Bookkeeping of one check run: tallies, violations, known findings, evidence."""

    def __init__(self, prop, tier, seed, level="exploration"):
        self.prop = prop
        self.tier = tier
        self.seed = seed
        self.level = level
        self.t0 = time.time()
        self.evaluations = 0
        self.tally = {HELD: 0, VIOLATED: 0, INCONCLUSIVE: 0, "known": 0}
        self.nontrivial = set()
        self.samples = []
        self.counters = {}
        self.violations = {}      # signature -> (detail, replay_payload, count)
        self.known_hits = {}      # signature -> count
        self.harness_errors = []
        self.known = [k for k in load_known_findings() if k.get("property") == prop]
        self.assumptions = []
        self.extra = {}
        self.inconclusive_reasons = {}

    # ---- feeding results
    def count(self, key, n=1):
        self.counters[key] = self.counters.get(key, 0) + n

    def merge_counters(self, d):
        for k, v in (d or {}).items():
            if isinstance(v, (int, float)):
                self.counters[k] = self.counters.get(k, 0) + v

    def add_sample(self, s, limit=5):
        if len(self.samples) < limit:
            self.samples.append(s)

    def held(self, nontrivial_key=None):
        self.evaluations += 1
        self.tally[HELD] += 1
        if nontrivial_key is not None:
            self.nontrivial.add(nontrivial_key)

    def inconclusive(self, reason):
        self.evaluations += 1
        self.tally[INCONCLUSIVE] += 1
        self.inconclusive_reasons[reason] = self.inconclusive_reasons.get(reason, 0) + 1

    def violation(self, signature, detail, replay):
        """A violation with an exact signature; listed (status known) findings are tallied apart."""
        self.evaluations += 1
        for k in self.known:
            if k.get("status") == "known" and k.get("signature") == signature:
                self.tally["known"] += 1
                self.known_hits[signature] = self.known_hits.get(signature, 0) + 1
                if signature not in self.extra.setdefault("known_examples", {}):
                    self.extra["known_examples"][signature] = replay
                return
        self.tally[VIOLATED] += 1
        if signature in self.violations:
            d, r, c = self.violations[signature]
            # keep the smallest replay
            if len(json.dumps(replay, default=str)) < len(json.dumps(r, default=str)):
                d, r = detail, replay
            self.violations[signature] = (d, r, c + 1)
        else:
            self.violations[signature] = (detail, replay, 1)

    def feed(self, result):
        """Standard result dict from a shard: {verdict, sig, detail, replay, nt, cov, sample}"""
        if result is None:
            return
        if "harness_error" in result:
            self.harness_errors.append(result["harness_error"])
            return
        self.merge_counters(result.get("cov"))
        for k in result.get("nts", []) or []:
            self.nontrivial.add(k)
        if "sample" in result and result["sample"] is not None:
            self.add_sample(result["sample"])
        v = result.get("verdict")
        if v == HELD:
            self.held(result.get("nt"))
        elif v == INCONCLUSIVE:
            self.inconclusive(result.get("detail", "?"))
        elif v == VIOLATED:
            self.violation(result["sig"], result.get("detail", ""), result.get("replay"))
        for extra_v in result.get("more_violations", []) or []:
            self.violation(extra_v["sig"], extra_v.get("detail", ""), extra_v.get("replay"))

    # ---- finishing
    def finish(self, rule, coverage_extra=None, min_evaluations=1, exhaustive=None):
        wall = time.time() - self.t0
        os.makedirs(EVIDENCE_DIR, exist_ok=True)
        rc = 0
        lines = []
        for sig, n in sorted(self.known_hits.items()):
            k = next(k for k in self.known if k.get("signature") == sig)
            lines.append("KNOWN-FINDING: property=%s %s (seen %d times) [%s]" % (self.prop, k.get("summary", sig), n, sig))
        replay_paths = []
        if self.violations:
            rc = 1
            d = os.path.join(REPLAY_DIR, self.prop)
            os.makedirs(d, exist_ok=True)
            for sig, (detail, replay, n) in sorted(self.violations.items()):
                path = os.path.join(d, stable_hash([sig, replay]) + ".json")
                with open(path, "w") as f:
                    json.dump({"property": self.prop, "signature": sig, "detail": detail, "count": n,
                               "tier": self.tier, "seed": self.seed, "replay": replay}, f, indent=1, default=str)
                replay_paths.append(path)
                lines.append("VIOLATION property=%s replay=%s" % (self.prop, path))
                lines.append("  signature: %s" % sig)
                lines.append("  detail: %s" % (str(detail)[:600]))
        total = self.evaluations
        inc = self.tally[INCONCLUSIVE]
        harness_fail = None
        if self.harness_errors:
            harness_fail = "harness errors: %s" % self.harness_errors[0][-1500:]
        elif total < min_evaluations:
            harness_fail = "observed only %d cases (< %d)" % (total, min_evaluations)
        elif total and inc / total > 0.05:
            harness_fail = "inconclusive share %.1f%% > 5%% (%s)" % (100.0 * inc / total, self.inconclusive_reasons)
        cov = {
            "evaluations": total,
            "distinct_nontrivial": len(self.nontrivial),
            "rule": rule,
            "samples": self.samples or ["(no sample recorded)"],
            "tally": dict(self.tally),
            "counters": {k: self.counters[k] for k in sorted(self.counters)},
            "inconclusive_reasons": self.inconclusive_reasons,
            "known_findings_reproduced": self.known_hits,
            "violation_signatures": sorted(self.violations),
        }
        if exhaustive is not None:
            cov["exhaustive"] = bool(exhaustive)
        if coverage_extra:
            cov.update(coverage_extra)
        ev = {
            "property_id": self.prop,
            "tier": self.tier,
            "seed": self.seed,
            "level": self.level,
            "coverage": cov,
            "assumptions": self.assumptions,
            "wall_s": round(wall, 2),
            "violations": len(self.violations),
        }
        if harness_fail:
            ev["harness_failure"] = harness_fail
        with open(os.path.join(EVIDENCE_DIR, self.prop + ".json"), "w") as f:
            json.dump(ev, f, indent=1, default=str)
        for l in lines:
            print(l)
        print("%s tier=%s seed=%d: %d cases, held=%d violated=%d known=%d inconclusive=%d, distinct_nontrivial=%d, %.1fs"
              % (self.prop, self.tier, self.seed, total, self.tally[HELD], self.tally[VIOLATED], self.tally["known"],
                 inc, len(self.nontrivial), wall))
        if rc == 0 and harness_fail:
            print("HARNESS-FAILURE: %s" % harness_fail)
            return 2
        return rc


def rng_for(seed, *parts):
    h = hashlib.sha256(("%d|" % seed + "|".join(str(p) for p in parts)).encode()).digest()
    return random.Random(int.from_bytes(h[:8], "big"))


def corpus_files():
    """All .pn files of the repository (tests/samples, examples, core, vendor)."""
    out = []
    for top in ("tests/samples", "examples", "core", "vendor"):
        for root, _dirs, files in os.walk(os.path.join(REPO, top)):
            for fn in sorted(files):
                if fn.endswith(".pn"):
                    out.append(os.path.join(root, fn))
    return sorted(out)


def read_text(path):
    with open(path, "rb") as f:
        data = f.read()
    try:
        return data.decode("utf-8")
    except UnicodeDecodeError:
        return None
