"""C18 - the command line tool reports outcomes faithfully.

The real `penne` binary (built from /repo with the first-generation compiler) is invoked on valid / invalid single- and
multi-file inputs x {build (explicit, implicit), run, emit} x option subsets. Backends are tiny recording scripts
(they write their identity, argv and stdin to a file and exit with a chosen status). A small model of the documented
contract predicts exit status, files written, what is shown and which backend is used."""
import json
import os
import re
import shutil
import stat
import subprocess
import tempfile

from . import common
from .common import HELD, VIOLATED, INCONCLUSIVE

PROP = "C18"

VALID_MAIN = "fn main() -> i32\n{\n\tprint!(\"hello from penne\\n\");\n\treturn: %d\n}\n"
LIB = "pub fn twice(x: i32) -> i32\n{\n\treturn: x + x\n}\n"
USES_LIB = "import \"lib.pn\";\n\nfn main() -> i32\n{\n\tvar r: i32 = twice(%d);\n\treturn: r\n}\n"
INPUTS = {
    "valid_single": ([("main.pn", VALID_MAIN % 7)], True, 7),
    "valid_zero": ([("main.pn", VALID_MAIN % 0)], True, 0),
    "valid_multi": ([("app.pn", USES_LIB % 21), ("lib.pn", LIB)], True, 42),
    "valid_multi_reordered": ([("lib.pn", LIB), ("app.pn", USES_LIB % 4)], True, 8),
    "valid_subdir": ([("src/deep/main.pn", VALID_MAIN % 3)], True, 3),
    # both modules use the same builtin (one intrinsic declared per module)
    "valid_multi_builtins": ([("app.pn", "import \"talk.pn\";\n\nfn main() -> i32\n{\n\tprint!(\"app \", 1i32, \"\\n\");\n\treturn: say(5)\n}\n"),
                              ("talk.pn", "pub fn say(x: i32) -> i32\n{\n\tprint!(\"talk \", x, \"\\n\");\n\treturn: x + 1\n}\n")], True, 6),
    "valid_multi_builtins_reordered": ([("talk.pn", "pub fn say(x: i32) -> i32\n{\n\tprint!(\"talk \", x, \"\\n\");\n\treturn: x + 1\n}\n"),
                                        ("app.pn", "import \"talk.pn\";\n\nfn main() -> i32\n{\n\tprint!(\"app \", 1i32, \"\\n\");\n\treturn: say(5)\n}\n")],
                                       True, 6),
    "lexical_error": ([("main.pn", "fn main() -> i32\n{\n\tvar x: i32 = 1 @ 2;\n\treturn: x\n}\n")], False, [110]),
    "type_error": ([("main.pn", "fn main() -> i32\n{\n\tvar x: i32 = true;\n\treturn: x\n}\n")], False, [504]),
    "error_in_second_module": ([("app.pn", USES_LIB % 1), ("lib.pn", "pub fn twice(x: i32) -> i32\n{\n\treturn: x + y\n}\n")], False, [402]),
    "unicode_error_line": ([("main.pn", "// é€ 日本\nfn main() -> i32\n{\n\tvar x: u8 = -1u8;\n\treturn: 0\n}\n")], False, [550]),
    # embedded libraries named as a single file of the library, and a library that is imported but not named
    "valid_vendor_file": ([("main.pn", "import \"vendor:libc/string.pn\";\n\nfn main() -> i32\n{\n\tvar buffer = \"Hallo\\0\";\n"
                            "\tmemcpy(&buffer, \"Heeeeeee\", 2);\n\tvar target = \"Hello\";\n\tvar diff = memcmp(buffer, target, |target|);\n"
                            "\treturn: diff + 7\n}\n"), ("vendor:libc/string.pn", None)], True, 7),
    "valid_core_file": ([("main.pn", "import \"core:text/char.pn\";\n\nfn main() -> i32\n{\n\tvar r: i32 = 5;\n\tif is_control_char(0) == false\n"
                          "\t{\n\t\tr = -1;\n\t}\n\treturn: r\n}\n"), ("core:text/char.pn", None)], True, 5),
    "unnamed_core_library": ([("main.pn", "import \"core:text/char.pn\";\n\nfn main() -> i32\n{\n\tvar r: i32 = 5;\n"
                               "\tif is_control_char(0) == false\n\t{\n\t\tr = -1;\n\t}\n\treturn: r\n}\n")], False, [477]),
    "pointer_cast_without_cast": ([("main.pn", "fn main() -> i32\n{\n\tvar x: u32 = 17;\n\tvar y: &i32 = &x as &i32;\n\treturn: y\n}\n")], False, [552]),
    "char8_cast_error": ([("main.pn", "fn main() -> i32\n{\n\tvar c: char8 = 'a';\n\tvar x: i32 = c as i32;\n\treturn: x\n}\n")], False, [552]),
    "bool_cast_error": ([("main.pn", "fn main() -> i32\n{\n\tvar x: i32 = 3;\n\tvar b: bool = x as bool;\n\treturn: x\n}\n")], False, [552]),
    "missing_file": ([], False, None),
    "empty_file": ([("main.pn", "")], False, [101]),
}

REC = """#!/bin/sh
# recording backend: identity, argv, stdin
{
  echo "IDENTITY=$REC_IDENTITY_{ID}"
  echo "NAME={ID}"
  for a in "$@"; do echo "ARG=$a"; done
  echo "STDIN-BEGIN"
  cat
  echo "STDIN-END"
} > "$REC_DIR/{ID}.record"
exit {STATUS}
"""


def make_backend(d, ident, status=0):
    p = os.path.join(d, "backend_" + ident)
    with open(p, "w") as f:
        # status "SEGV"/"ABRT": the backend dies from a signal after recording (no exit code at all)
        ending = "kill -%s $$" % status if isinstance(status, str) else "exit %d" % status
        f.write(REC.replace("{ID}", ident).replace("exit {STATUS}", ending))
    os.chmod(p, os.stat(p).st_mode | stat.S_IEXEC)
    return p


def embedded_source(key):
    scheme, sub = key.split(":", 1)
    with open(os.path.join(common.REPO, scheme, sub), encoding="utf-8") as f:
        return f.read()


def library_view(files):
    """What the library says about these sources (verdict, per-module IR)."""
    files = [(p, s if s is not None else embedded_source(p)) for p, s in files]
    k, r = common.call({"op": "alpha_compile", "files": [{"path": p, "src": s} for p, s in files], "ir": True, "module_ir": True},
                       build="chk", timeout=60)
    if k != "resp":
        return None
    return r


def run_case(case):
    rng = common.rng_for(case["seed"], PROP, case["i"])
    name = case["input"]
    files, ok, expect = INPUTS[name]
    sub = case["sub"]
    opts = case["opts"]
    d = tempfile.mkdtemp(prefix="pv-c18-")
    try:
        return _run(case, rng, name, files, ok, expect, sub, opts, d)
    finally:
        shutil.rmtree(d, ignore_errors=True)


def _run(case, rng, name, files, ok, expect, sub, opts, d):
    exe = common.penne_bin_path()
    src_dir = os.path.join(d, "w")
    os.makedirs(src_dir)
    paths = []
    fifos = []
    for p, s in files:
        if p.startswith(("core:", "vendor:")):
            paths.append(p)         # an embedded library named on the command line, not a file of the working directory
            continue
        full = os.path.join(src_dir, p)
        os.makedirs(os.path.dirname(full), exist_ok=True)
        if opts.get("fifo"):
            # the source arrives through a named pipe (as with `<(...)` or /dev/stdin): readable once, not a regular file
            import threading
            os.mkfifo(full)

            def feed(path=full, text=s):
                try:
                    with open(path, "w", encoding="utf-8") as f:
                        f.write(text)
                except OSError:
                    pass
            threading.Thread(target=feed, daemon=True).start()
            fifos.append(full)
            paths.append(p)
            continue
        with open(full, "w", encoding="utf-8") as f:
            f.write(s)
        paths.append(p)
    if name == "missing_file":
        paths = ["does_not_exist.pn"]
    rec_dir = os.path.join(d, "rec")
    os.makedirs(rec_dir)
    bin_dir = os.path.join(d, "bin")
    os.makedirs(bin_dir)
    env = {"PATH": bin_dir + ":/usr/bin:/bin", "REC_DIR": rec_dir, "HOME": d, "LC_ALL": "C", "TERM": "dumb"}
    # default backends found on PATH: `clang` and `lli` are recording scripts too
    backend_status = opts.get("backend_status", 0)
    for default in ("clang", "lli"):
        p = make_backend(bin_dir, "default_" + default, backend_status)
        os.rename(p, os.path.join(bin_dir, default))
    args = [exe]
    if sub != "implicit":
        args.append(sub)
    expected_backend = None if sub == "emit" else ("default_lli" if sub == "run" else "default_clang")
    is_build = sub in ("build", "implicit")
    if opts.get("config") and is_build:
        cfg_backend = make_backend(bin_dir, "config", backend_status)
        cfg = os.path.join(d, "penne.toml")
        with open(cfg, "w") as f:
            f.write('backend = "%s"\n' % cfg_backend)
        args += ["--config", cfg]
        expected_backend = "config"
    if opts.get("env") and sub != "emit":
        env_backend = make_backend(bin_dir, "env", backend_status)
        env["PENNE_LLI" if sub == "run" else "PENNE_BACKEND"] = env_backend
        expected_backend = "env"
    if opts.get("env_other") and sub != "emit":
        # the variable of the *other* subcommand must be ignored
        other = make_backend(bin_dir, "env_other", backend_status)
        env["PENNE_BACKEND" if sub == "run" else "PENNE_LLI"] = other
    if opts.get("flag") and sub != "emit":
        flag_backend = make_backend(bin_dir, "flag", backend_status)
        args += ["--backend", flag_backend]
        expected_backend = "flag"
    out_dir = None
    if opts.get("out_dir"):
        out_dir = os.path.join(d, "out")
        args += ["--out-dir", out_dir]
    if opts.get("silent"):
        args.append("--silent")
    if opts.get("verbose"):
        args.append("--verbose")
    if opts.get("color"):
        args.append("--color=" + opts["color"])
    if opts.get("arrows"):
        args.append("--arrows=" + opts["arrows"])
    if opts.get("wasm") and sub != "run":
        args.append("--wasm")
    if opts.get("backend_args") and sub != "emit":
        args += ["--backend-args=-O1 -g"]
    args += paths
    try:
        p = subprocess.run(args, cwd=src_dir, env=env, stdout=subprocess.PIPE, stderr=subprocess.PIPE, timeout=120)
    except subprocess.TimeoutExpired:
        return {"verdict": INCONCLUSIVE, "detail": "penne did not finish within 120 s"}
    finally:
        for fp in fifos:        # release a feeder whose pipe was never opened
            try:
                os.close(os.open(fp, os.O_RDONLY | os.O_NONBLOCK))
            except OSError:
                pass
    out = p.stdout.decode("utf-8", "replace")
    err = p.stderr.decode("utf-8", "replace")
    both = out + err
    records = {}
    for fn in os.listdir(rec_dir):
        records[fn[:-7]] = open(os.path.join(rec_dir, fn), errors="replace").read()
    replay = {"args": [a.replace(d, "$TMP") for a in args[1:]], "input": name, "sub": sub, "opts": opts, "exit": p.returncode,
              "stdout": out[-1500:], "stderr": err[-1500:], "backends_invoked": sorted(records)}
    cov = {"invocations": 1, "sub_" + sub: 1, "input_" + name: 1}
    for k in opts:
        cov["opt_" + k] = 1

    def bad(sig, detail=None):
        return {"verdict": VIOLATED, "sig": sig, "detail": detail if detail is not None else replay, "replay": replay, "cov": cov}

    if p.returncode < 0:
        return bad("penne killed by signal %d" % -p.returncode)
    lib = library_view([(pp, s) for pp, s in files]) if files else None
    compile_ok = ok
    if lib is not None and (lib["status"] == "ok") != ok:
        return {"verdict": INCONCLUSIVE, "detail": "library verdict differs from the input's design (%s)" % name}
    # ---- exit status
    backend_should_run = compile_ok and sub != "emit"
    killed = isinstance(backend_status, str)
    backend_fails = backend_should_run and ((is_build and backend_status != 0) or killed)
    expect_success = compile_ok and not backend_fails
    if expect_success and p.returncode != 0:
        return bad("non-zero exit status although compilation%s succeeded (%s)" % (" and backend" if sub != "emit" else "", sub))
    if not expect_success and p.returncode == 0:
        why = "compilation failed" if not compile_ok else "the backend failed"
        return bad("exit status 0 although %s (%s)" % (why, sub))
    # ---- backend selection
    if backend_should_run:
        if expected_backend not in records:
            return bad("backend precedence: expected %s, invoked %s (%s)" % (expected_backend, sorted(records), sub))
        if len(records) != 1:
            return bad("more than one backend invoked: %s" % sorted(records))
        rec = records[expected_backend]
        if lib is not None and lib["status"] == "ok":
            m = re.search(r"STDIN-BEGIN\n(.*)STDIN-END", rec, re.S)
            if not m or m.group(1).strip() != lib["ir"].strip():
                cov["backend_ir_differs"] = 1
                if not opts.get("wasm"):
                    return bad("IR piped into the backend differs from the linked IR of the library")
        if opts.get("backend_args") and ("ARG=-O1" not in rec or "ARG=-g" not in rec):
            return bad("backend arguments not passed on")
    else:
        if records:
            return bad("backend invoked although %s" % ("compilation failed" if not compile_ok else "emit needs none"))
    # ---- emit / out-dir files
    if compile_ok and out_dir and lib is not None:
        for (pp, _s), ir in zip(files, lib["module_irs"]):
            target = os.path.join(out_dir, pp)
            target = os.path.splitext(target)[0] + ".pn.ll"
            if not os.path.exists(target):
                return bad("--out-dir: no .pn.ll file for module %s (%s)" % (pp, sub))
            text = open(target, errors="replace").read()
            if not opts.get("wasm") and text.strip() != ir.strip():
                return bad("--out-dir: .pn.ll differs from the module IR (%s)" % sub)
            msg = common.llvm_judges(text)
            if msg:
                return bad("--out-dir: written IR rejected by LLVM: " + common.abstract_llvm_message(msg)[:100])
            cov["ll_files_checked"] = cov.get("ll_files_checked", 0) + 1
    # ---- what is shown
    if opts.get("silent"):
        # the only thing still shown is the process-level error report on stderr (`Error: ...` and its cause)
        err_lines = err.splitlines()
        first = next((k for k, l in enumerate(err_lines) if l.startswith("Error:")), len(err_lines))
        leftovers = [l for l in out.splitlines() + err_lines[:first] if l.strip()]
        # LLVM's own linker warning about the target triple of --wasm modules is not penne's output
        # (the model deliberately says nothing about the triple a --wasm module carries)
        leftovers = [l for l in leftovers if not (opts.get("wasm") and l.startswith("warning: Linking two modules of different target triples"))]
        if expect_success:
            leftovers += [l for l in err_lines[first:] if l.strip()]
        if leftovers:
            return bad("--silent: output shown", leftovers[:5])
    else:
        if sub == "run" and compile_ok and not killed:
            # our recording lli exits with backend_status: that is "the program's exit status"
            if ("Output: %d" % backend_status) not in out:
                return bad("run: program exit status not shown as `Output: N`")
        if not compile_ok and name != "missing_file":
            for code in expect:
                if "[E%d]" % code not in both:
                    return bad("failing compilation without rendered diagnostic [E%d] (%s)" % (code, sub))
        if not compile_ok and name == "missing_file" and "does_not_exist.pn" not in both:
            return bad("missing input file not named in the error output")
    if opts.get("color") == "never" and "\x1b" in both:
        return bad("--color=never: ESC byte in the output")
    if opts.get("color") == "always" and not compile_ok and name != "missing_file" and not opts.get("silent") and "\x1b" not in both:
        return bad("--color=always: no colour in rendered diagnostics")
    if opts.get("arrows") == "ascii":
        plain = re.sub("\x1b\\[[0-9;]*m", "", both)
        for line in plain.splitlines():
            if re.match(r"^\s*\d+ [|│] ", line):
                continue
            if any(0x2500 <= ord(ch) < 0x2580 for ch in line):
                return bad("--arrows=ascii: box-drawing characters in the output", line)
    return {"verdict": HELD, "cov": cov, "nt": "%s|%s|%s" % (name, sub, ",".join(sorted(k + "=" + str(v) for k, v in opts.items()))),
            "sample": replay if case["i"] % 97 == 0 else None}


def run_passthrough(case):
    """`penne run` with the real lli: program output passes through, exit status shown."""
    d = tempfile.mkdtemp(prefix="pv-c18r-")
    try:
        exe = common.penne_bin_path()
        status = case["status"]
        with open(os.path.join(d, "main.pn"), "w") as f:
            f.write(VALID_MAIN % status)
        env = {"PATH": "/usr/bin:/bin", "HOME": d, "PENNE_LLI": "lli-14", "LC_ALL": "C"}
        args = [exe, "run"] + (["--silent"] if case["silent"] else []) + ["main.pn"]
        p = subprocess.run(args, cwd=d, env=env, stdout=subprocess.PIPE, stderr=subprocess.PIPE, timeout=120)
        out = p.stdout.decode("utf-8", "replace")
        replay = {"args": args[1:], "exit": p.returncode, "stdout": out[-500:], "stderr": p.stderr.decode("utf-8", "replace")[-500:]}
        cov = {"invocations": 1, "real_lli_runs": 1}
        if p.returncode != 0:
            return {"verdict": VIOLATED, "sig": "run with real lli: non-zero exit status", "detail": replay, "replay": replay, "cov": cov}
        if "hello from penne" not in out:
            return {"verdict": VIOLATED, "sig": "run: program output not passed through", "detail": replay, "replay": replay, "cov": cov}
        if not case["silent"] and ("Output: %d" % status) not in out:
            return {"verdict": VIOLATED, "sig": "run: program exit status not shown as `Output: N`", "detail": replay, "replay": replay, "cov": cov}
        if case["silent"] and "Output:" in out:
            return {"verdict": VIOLATED, "sig": "--silent: output shown", "detail": replay, "replay": replay, "cov": cov}
        return {"verdict": HELD, "cov": cov, "nt": "real_lli|%d|%s" % (status, case["silent"])}
    finally:
        shutil.rmtree(d, ignore_errors=True)


def dispatch(case):
    if case.get("kind") == "passthrough":
        return run_passthrough(case)
    return run_case(case)


def cases(tier, seed):
    rng = common.rng_for(seed, PROP)
    out = []
    i = 0
    option_space = {
        "silent": [None, True], "verbose": [None, True], "color": [None, "never", "always"], "arrows": [None, "ascii", "unicode"],
        "out_dir": [None, True], "flag": [None, True], "env": [None, True], "config": [None, True], "env_other": [None, True],
        "wasm": [None, True], "backend_args": [None, True], "backend_status": [0, 0, 0, 3, "SEGV", "ABRT"],
    }
    # systematic: every input x subcommand with no options, and backend precedence lattice
    for name in INPUTS:
        for sub in ("build", "implicit", "run", "emit"):
            out.append({"seed": seed, "i": i, "input": name, "sub": sub, "opts": {}})
            i += 1
    for sub in ("build", "implicit", "run"):
        for flag in (None, True):
            for env in (None, True):
                for config in (None, True):
                    for other in (None, True):
                        opts = {k: v for k, v in (("flag", flag), ("env", env), ("config", config), ("env_other", other)) if v}
                        out.append({"seed": seed, "i": i, "input": "valid_multi", "sub": sub, "opts": opts})
                        i += 1
    for sub in ("build", "run"):
        for st in (1, "SEGV", "ABRT", "KILL"):
            for silent in (None, True):
                opts = {"backend_status": st}
                if silent:
                    opts["silent"] = True
                out.append({"seed": seed, "i": i, "input": "valid_multi", "sub": sub, "opts": opts})
                i += 1
    # sources that are not regular files (named pipes): every valid input x subcommand, with and without an explicit backend
    for name, (files_, ok, _exp) in INPUTS.items():
        if not ok or any(p.startswith(("core:", "vendor:")) for p, _s in files_) or name == "missing_file":
            continue
        for sub in ("build", "implicit", "run", "emit"):
            for opts in ({"fifo": True}, {"fifo": True, "flag": True}, {"fifo": True, "out_dir": True}, {"fifo": True, "backend_status": 3}):
                out.append({"seed": seed, "i": i, "input": name, "sub": sub, "opts": dict(opts)})
                i += 1
    # every failing input with the rendering options (each diagnostic kind has its own rendering code)
    for name, (_files, ok, _exp) in INPUTS.items():
        if ok:
            continue
        for sub in ("build", "emit", "run"):
            for opts in ({"color": "never"}, {"arrows": "ascii"}, {"color": "never", "arrows": "ascii"}, {"color": "always"}):
                out.append({"seed": seed, "i": i, "input": name, "sub": sub, "opts": dict(opts)})
                i += 1
    n = 110 if tier == "quick" else 3000
    for _ in range(n):
        opts = {}
        for k, vals in option_space.items():
            v = rng.choice(vals)
            if v:
                opts[k] = v
        out.append({"seed": seed, "i": i, "input": rng.choice(list(INPUTS)), "sub": rng.choice(["build", "implicit", "run", "emit"]),
                    "opts": opts})
        i += 1
    for status in (0, 1, 7, 255):
        for silent in (False, True):
            out.append({"kind": "passthrough", "status": status, "silent": silent, "i": i})
            i += 1
    return out


def replay_file(path):
    with open(path) as f:
        data = json.load(f)
    rp = data["replay"]
    print(json.dumps(rp, indent=1)[:2000])
    if "input" in rp:
        common.ensure_worker("chk")
        common.ensure_penne_bin()
        r = run_case({"seed": 0, "i": 0, "input": rp["input"], "sub": rp["sub"], "opts": rp["opts"]})
        if r["verdict"] == VIOLATED:
            print("VIOLATION property=%s replay=%s" % (PROP, path))
            return 1
        print("replay: property holds for this invocation now")
    return 0


def main(tier, seed, replay=None):
    if replay:
        return replay_file(replay)
    common.ensure_worker("chk")
    common.ensure_penne_bin()
    run = common.Run(PROP, tier, seed)
    for r in common.run_sharded(dispatch, cases(tier, seed)):
        run.feed(r)
    run.assumptions = [
        "backends are recording scripts (identity, argv, stdin) with a chosen exit status; `clang` and `lli` on PATH are such scripts too, so the default is observable",
        "for `run` the tool itself exits 0 whenever compilation succeeded and the backend exited normally; the program's status is shown as `Output: N`",
        "--silent suppresses diagnostics as well ('show no output'); the executed program's own output still passes through",
        "the model says nothing about the target triple of --wasm modules",
    ]
    return run.finish(
        rule="every input kind x subcommand without options; the full flag/env/config/other-env lattice per subcommand; random option subsets "
             "(silent, verbose, color, arrows, out-dir, wasm, backend args, failing backend); `penne run` through the real lli-14 for several exit "
             "statuses. distinct_nontrivial = distinct (input, subcommand, option set)",
        coverage_extra={"ll_files_checked": int(run.counters.get("ll_files_checked", 0))},
        min_evaluations=100)
