"""Memory-safety monitors for the second-generation front end: Miri (UB interpreter) and AddressSanitizer over
/verif/delta-harness, which drives lexer -> parser -> header -> XML exactly like compile_to_ir_using_delta."""
import os
import re
import shutil
import subprocess
import tempfile

from . import common, gen_mutate
from .common import HELD, VIOLATED, INCONCLUSIVE

HARNESS = os.path.join(common.VERIF, "delta-harness")
MIRI_TARGET = os.path.join(common.TARGET, "delta-miri")
ASAN_TARGET = os.path.join(common.TARGET, "delta-asan")
ASAN_BIN = os.path.join(ASAN_TARGET, "x86_64-unknown-linux-gnu", "debug", "delta-harness")


def _env(extra=None):
    env = dict(os.environ)
    env["CARGO_NET_OFFLINE"] = "true"
    env.pop("RUSTFLAGS", None)
    env.update(extra or {})
    return env


def ensure_lockfile():
    lock = os.path.join(HARNESS, "Cargo.lock")
    if not os.path.exists(lock):
        shutil.copy(os.path.join(common.REPO, "Cargo.lock"), lock)


def build_miri():
    """Warm-up run so that parallel `cargo miri run` invocations find everything compiled."""
    ensure_lockfile()
    lock = common._locked("delta-miri")
    try:
        d = tempfile.mkdtemp(prefix="pv-miri-warm-")
        p = os.path.join(d, "w.pn")
        open(p, "w").write("fn main()\n{\n}\n")
        env = _env({"CARGO_TARGET_DIR": MIRI_TARGET, "MIRIFLAGS": "-Zmiri-disable-isolation"})
        r = subprocess.run(["cargo", "+nightly", "miri", "run", "--offline", "--", p], cwd=HARNESS, env=env,
                           stdout=subprocess.PIPE, stderr=subprocess.STDOUT, text=True)
        shutil.rmtree(d, ignore_errors=True)
        if r.returncode != 0 or "stage=done" not in r.stdout:
            m = re.search(r"error: (Undefined Behavior: [^\n]*)", r.stdout)
            if m:
                # the interpreter already objects on the smallest module: that is an observation, not a harness problem
                frame = re.search(r"at (/\S+/src/delta/\S+?\.rs)", r.stdout)
                return {"verdict": VIOLATED,
                        "sig": "Miri: %s (%s)" % (re.sub(r"\d+", "N", m.group(1))[:160],
                                                  "src/delta/" + frame.group(1).split("/src/delta/")[1] if frame else "?"),
                        "detail": r.stdout[-1500:], "replay": {"hex": b"fn main()\n{\n}\n".hex(), "kind": "warm-up"}}
            raise common.HarnessError("miri warm-up failed:\n" + r.stdout[-2000:])
        return None
    finally:
        lock.close()


def build_asan():
    ensure_lockfile()
    lock = common._locked("delta-asan")
    try:
        env = _env({"CARGO_TARGET_DIR": ASAN_TARGET, "RUSTFLAGS": "-Zsanitizer=address -Cforce-frame-pointers=yes"})
        common._run_build(["cargo", "+nightly", "build", "--offline", "--target", "x86_64-unknown-linux-gnu"], HARNESS, env,
                          "delta-harness (asan)")
    finally:
        lock.close()


def miri_inputs(tier, seed):
    """Reduced-size inputs chosen to reach every parser production and every overflow-prone shape."""
    from . import c15
    rng = common.rng_for(seed, "C15", "miri")
    out = []
    corpus = [(p, t) for p, t in gen_mutate.corpus() if len(t) < 1500]
    n_corpus = 10 if tier == "quick" else 250
    for p, t in rng.sample(corpus, min(n_corpus, len(corpus))):
        out.append(("corpus", t.encode()))
    for n in (3, 12) if tier == "quick" else (1, 3, 12, 40, 90):
        for shape, text in c15.density_shapes(n).items():
            out.append(("density:" + shape, text.encode()))
    for construct in c15.NEST:
        for d in ((6,) if tier == "quick" else (2, 6, 20, 40)):
            out.append(("nest:" + construct, gen_mutate.nesting(construct, d).encode()))
    try:
        from . import gen_syntax
        for i in range(6 if tier == "quick" else 300):
            out.append(("g2", gen_syntax.module_text(common.rng_for(seed, "C15", "g2", i), size=rng.choice([2, 4, 8])).encode()))
    except ImportError:
        pass
    for i in range(8 if tier == "quick" else 600):
        p, t = rng.choice(corpus)
        op, t2 = gen_mutate.mutate(rng, t)
        data = t2.encode()
        if rng.random() < 0.3 and data:
            pos = rng.randrange(len(data))
            data = data[:pos] + bytes([rng.choice([0, 0x80, 0xFF, 0xE2])]) + data[pos:]
        out.append(("mutant:" + op, data))
    for i in range(4 if tier == "quick" else 200):
        out.append(("random_bytes", bytes(rng.randrange(256) for _ in range(rng.choice([1, 5, 60, 300])))))
    for i in range(4 if tier == "quick" else 200):
        out.append(("soup", gen_mutate.token_soup(rng, rng.choice([3, 12, 40])).encode()))
    if tier == "quick":
        out = out[:64]
    return out


def asan_inputs(tier, seed):
    from . import c15
    n = 0
    for case in c15.cases("quick" if tier == "quick" else "thorough", seed + 1):
        data = case["data"]
        if isinstance(data, str):
            data = data.encode()
        if len(data) > 64 * 1024 and not case["kind"].startswith("density"):
            continue
        if case["kind"].startswith("density") and case.get("meta", {}).get("n", 0) >= 10000:
            continue   # known stack overflows: the native monitor owns them
        n += 1
        if tier == "quick" and n % 3:
            continue
        if tier != "quick" and n % 4:
            continue
        yield case["kind"], data


SUMMARY = re.compile(r"^(\S+) (stage=.*)$")


def _native_summary(data):
    """The same facts from the native (non-instrumented) worker."""
    kind, r = common.call({"op": "delta_front", "hex": data.hex(), "xml": False}, build="chk", timeout=120)
    if kind != "resp":
        return None
    return r


def run_miri_batch(batch):
    workdir, idx, items = batch
    d = os.path.join(workdir, "m%d" % idx)
    os.makedirs(d, exist_ok=True)
    paths = []
    for j, (kind, data) in enumerate(items):
        p = os.path.join(d, "%03d.in" % j)
        open(p, "wb").write(data)
        paths.append(p)
    env = _env({"CARGO_TARGET_DIR": MIRI_TARGET, "MIRIFLAGS": "-Zmiri-disable-isolation"})
    try:
        r = subprocess.run(["cargo", "+nightly", "miri", "run", "--offline", "-q", "--"] + paths, cwd=HARNESS, env=env,
                           stdout=subprocess.PIPE, stderr=subprocess.PIPE, text=True, timeout=3000)
    except subprocess.TimeoutExpired:
        return [{"verdict": INCONCLUSIVE, "detail": "miri batch timed out"}]
    lines = {}
    for line in r.stdout.splitlines():
        m = SUMMARY.match(line)
        if m:
            lines[m.group(1)] = m.group(2)
    out = []
    first_missing = None
    for (kind, data), p in zip(items, paths):
        if p in lines:
            res = {"verdict": HELD, "nt": "miri:%s:%s" % (kind, lines[p].split(" ")[0]),
                   "cov": {"miri_inputs": 1, "miri_bytes": len(data), "miri:" + kind.split(":")[0]: 1}}
            nat = _native_summary(data)
            if nat is not None:
                m = re.search(r"tokens=(\d+)", lines[p])
                if m and int(m.group(1)) != nat.get("n_tokens"):
                    res = {"verdict": VIOLATED, "sig": "front end behaves differently under the UB interpreter (token count)",
                           "detail": {"miri": lines[p], "native_tokens": nat.get("n_tokens")},
                           "replay": {"hex": data.hex(), "kind": kind}}
            out.append(res)
        elif first_missing is None:
            first_missing = (kind, data)
    if r.returncode != 0:
        err = r.stderr
        m = re.search(r"error: (Undefined Behavior: [^\n]*)", err)
        kind, data = first_missing if first_missing else ("?", b"")
        if m:
            frame = re.search(r"--> (/\S+?/src/delta/\S+)", err)
            out.append({"verdict": VIOLATED,
                        "sig": "Miri: %s (%s)" % (re.sub(r"\d+", "N", m.group(1))[:160], "src/delta/" + frame.group(1).split(":")[0].split("/src/delta/")[1] if frame else "?"),
                        "detail": err[-1500:], "replay": {"hex": data.hex(), "kind": kind}})
        elif "panicked at" in err:
            pm = re.search(r"panicked at ([^\n]*)\n([^\n]*)", err)
            out.append({"verdict": VIOLATED, "sig": "panic under Miri: %s" % (re.sub(r":\d+:\d+", "", pm.group(1)) if pm else "?"),
                        "detail": err[-1500:], "replay": {"hex": data.hex(), "kind": kind}})
        else:
            out.append({"verdict": INCONCLUSIVE, "detail": "miri exited %d: %s" % (r.returncode, err[-300:])})
    return out


def run_asan_batch(batch):
    workdir, idx, items = batch
    d = os.path.join(workdir, "a%d" % idx)
    os.makedirs(d, exist_ok=True)
    paths = []
    for j, (kind, data) in enumerate(items):
        p = os.path.join(d, "%05d.in" % j)
        open(p, "wb").write(data)
        paths.append(p)
    env = _env({"ASAN_OPTIONS": "detect_leaks=0:halt_on_error=1:abort_on_error=0:allocator_may_return_null=1"})
    try:
        r = subprocess.run([ASAN_BIN] + paths, env=env, stdout=subprocess.PIPE, stderr=subprocess.PIPE, text=True, timeout=3000,
                           preexec_fn=common._limit_stack)
    except subprocess.TimeoutExpired:
        return [{"verdict": INCONCLUSIVE, "detail": "asan batch timed out"}]
    seen = set(m.group(1) for m in (SUMMARY.match(l) for l in r.stdout.splitlines()) if m)
    out = [{"verdict": HELD, "nt": "asan:" + kind, "cov": {"asan_inputs": 1, "asan_bytes": len(data)}}
           for (kind, data), p in zip(items, paths) if p in seen]
    if r.returncode != 0:
        missing = [(k, dt) for (k, dt), p in zip(items, paths) if p not in seen]
        kind, data = missing[0] if missing else ("?", b"")
        if "AddressSanitizer" in r.stderr:
            head = re.search(r"ERROR: AddressSanitizer: ([^\n]*)", r.stderr)
            frame = re.search(r"/(src/(?:delta|alpha)/[^\s:]+)", r.stderr)
            if head and "stack-overflow" in head.group(1):
                # deep recursion is the native monitor's business (known findings there)
                out.append({"verdict": None, "cov": {"asan_stack_overflow": 1}})
            else:
                out.append({"verdict": VIOLATED,
                            "sig": "AddressSanitizer: %s (%s)" % (re.sub(r"0x[0-9a-f]+|\d+", "N", head.group(1))[:120] if head else "?",
                                                                   frame.group(1) if frame else "?"),
                            "detail": r.stderr[-2000:], "replay": {"hex": data.hex()[:40000], "kind": kind}})
        elif "panicked at" in r.stderr or "overflowed its stack" in r.stderr:
            out.append({"verdict": None, "cov": {"asan_native_crash_seen": 1}})     # reported by the native monitor
        else:
            out.append({"verdict": INCONCLUSIVE, "detail": "asan harness exited %d: %s" % (r.returncode, r.stderr[-300:])})
    return out


def run(run_obj, tier, seed):
    """Feeds results into run_obj; returns extra coverage keys."""
    workdir = tempfile.mkdtemp(prefix="pv-c15-", dir=common.TARGET)
    extra = {}
    try:
        early = build_miri()
        if early is not None:
            run_obj.feed(early)
        items = miri_inputs(tier, seed)
        n = common.NPROC
        batches = [(workdir, i, items[i::n]) for i in range(n) if items[i::n]]
        for r in common.run_sharded(run_miri_batch, batches):
            if r.get("verdict") is None and "harness_error" not in r:
                run_obj.merge_counters(r.get("cov"))
                continue
            run_obj.feed(r)
        extra["miri_inputs_interpreted"] = int(run_obj.counters.get("miri_inputs", 0))
        build_asan()
        items = list(asan_inputs(tier, seed))
        per = 400
        batches = [(workdir, i, items[i * per:(i + 1) * per]) for i in range((len(items) + per - 1) // per)]
        for r in common.run_sharded(run_asan_batch, batches):
            if r.get("verdict") is None and "harness_error" not in r:
                run_obj.merge_counters(r.get("cov"))
                continue
            run_obj.feed(r)
        extra["asan_inputs_executed"] = int(run_obj.counters.get("asan_inputs", 0))
        if extra["miri_inputs_interpreted"] < 10 and not run_obj.violations:
            raise common.HarnessError("Miri interpreted only %d inputs" % extra["miri_inputs_interpreted"])
    finally:
        shutil.rmtree(workdir, ignore_errors=True)
    return extra
