"""C17 - the extracted header is exactly the public interface.

For generated modules with every interleaving of public and private declarations of every kind, the header built by
the second-generation front end (decoded from its XML dump) must equal (a) the expected header computed from the
generator's own tree (public declarations in order, pub cleared, bodies removed) and (b) the tree obtained by
parsing the *restricted* module text (only the public declarations, printed without `pub` and with `;` bodies).
No private name and no statement of a public body may occur in it."""
import itertools
import json

from . import common, gen_syntax
from .common import HELD, VIOLATED, INCONCLUSIVE
from .gen_syntax import XmlError
from .c16 import norm, classify

PROP = "C17"
KINDS = ["const", "fn", "fn_head", "struct", "word", "import"]


def delta(src):
    return common.call({"op": "delta_front", "src": src, "xml": True, "header_kinds": True}, build="chk", timeout=60)


def check_module(decls, rng, wild=True):
    src = gen_syntax.Src(rng, wild=wild).module(decls)
    k, r = delta(src)
    replay = {"source": src}
    if k != "resp":
        return "second-generation front end: " + (r.signature() if k == "crash" else common.panic_signature(r)), str(r)[:300], replay
    if r["stage"] != "done":
        return "valid module rejected: %s" % sorted(set(e["code"] for e in r.get("errors", []))), r.get("errors", [])[:2], replay
    try:
        got = gen_syntax.xml_to_nform(r["header_xml"])
    except XmlError as e:
        return "header XML not well formed", str(e), replay
    except (KeyError, IndexError, ValueError) as e:
        return "header XML cannot be decoded: %s" % type(e).__name__, repr(e), replay
    want = gen_syntax.header_of(decls)
    diff = gen_syntax.first_difference(norm(want), norm(got))
    if diff:
        return "header differs from the public interface: " + classify(diff), diff, replay
    # restricted module: public declarations only, without `pub`, bodies replaced by `;`
    pubs = [d for d in decls if "Public" in d[2]]
    printer = gen_syntax.Src(rng, wild=wild)
    restricted = "\n".join(printer.decl(d, force_private=True, strip_body=True) for d in pubs)
    if pubs:
        k2, r2 = delta(restricted)
        if k2 == "resp" and r2["stage"] == "done":
            try:
                alt = gen_syntax.xml_to_nform(r2["xml"])
            except (XmlError, KeyError, IndexError, ValueError) as e:
                return "restricted module XML cannot be decoded", repr(e), dict(replay, restricted=restricted)
            diff = gen_syntax.first_difference(norm(alt), norm(got))
            if diff:
                return "header differs from the parse of the restricted module: " + classify(diff), diff, dict(replay, restricted=restricted)

        else:
            return "restricted module not accepted", str(r2)[:200], dict(replay, restricted=restricted)
    # leak checks on the raw XML text: private names and statements of public bodies must not occur
    text = "\n".join(r["header_xml"])
    private_names = [d[1] for d in decls if d[0] != "import" and "Public" not in d[2]]
    for n in private_names:
        if '"%s"' % n in text:
            return "private declaration appears in the header", n, replay
    for tag in ("<FunctionBody>", "<VariableDeclaration", "<Assignment>", "<Goto", "<Label", "<Loop", "<If>", "<Block>", "<MethodCall"):
        if tag in text:
            return "statement of a function body appears in the header", tag, replay
    # ... nor anywhere in the header's node array (orphaned nodes would not show in the XML dump, which follows the declarations)
    if r.get("header_body_kinds"):
        return "header holds nodes that only occur in function bodies or private zones", r["header_body_kinds"], replay
    if r["header_decls"] != len(want):
        return "header declaration count differs", {"expected": len(want), "observed": r["header_decls"]}, replay
    return None, {"public": len(want), "total": len(decls)}, replay


def run_case(case):
    kind = case[0]
    rng = common.rng_for(case[1], PROP, kind, case[2])
    g = gen_syntax.G2(rng, size=rng.choice([1, 3, 6, 12]), depth=rng.choice([1, 2, 3]))
    if kind == "pattern":
        _, seed, idx, kinds, mask = case
        decls = [g.declaration(kind=k, public=bool(m)) for k, m in zip(kinds, mask)]
        pat = "".join("P" if m else "-" for m in mask)
    else:
        n = rng.randrange(1, 9)
        decls = [g.declaration(kind=rng.choice(KINDS), public=(rng.random() < 0.5)) for _ in range(n)]
        pat = "".join("P" if "Public" in d[2] else "-" for d in decls)
    sig, detail, replay = check_module(decls, rng, wild=(case[2] % 2 == 0))
    cov = {"modules": 1, "declarations": len(decls), "pattern_len_%d" % len(decls): 1}
    if sig:
        return {"verdict": VIOLATED, "sig": sig, "detail": detail, "replay": replay, "cov": cov}
    return {"verdict": HELD, "cov": cov, "nt": "%s:%s" % (pat, "".join(d[0][0] for d in decls)),
            "sample": {"pattern": pat, "kinds": [d[0] for d in decls], "source": replay["source"][:500]} if case[2] % 300 == 0 else None}


def replay_file(path):
    with open(path) as f:
        data = json.load(f)
    common.ensure_worker("chk")
    k, r = delta(data["replay"]["source"])
    print(k, r.get("stage") if k == "resp" else r)
    if k == "resp" and r["stage"] == "done":
        print("\n".join(r["header_xml"][:60]))
    print("(re-run ./check C17 to judge: the expected header needs the generator's tree)")
    return 0


def main(tier, seed, replay=None):
    if replay:
        return replay_file(replay)
    common.ensure_worker("chk")
    run = common.Run(PROP, tier, seed)
    q = tier == "quick"
    cases = []
    idx = 0
    maxn = 3 if q else 4
    for n in range(1, maxn + 1):
        for kinds in itertools.product(KINDS, repeat=n):
            for mask in itertools.product([0, 1], repeat=n):
                if q and n == 3 and (idx % 4):
                    idx += 1
                    continue
                cases.append(("pattern", seed, idx, kinds, mask))
                idx += 1
    cases += [("random", seed, i) for i in range(2000 if q else 20000)]
    for r in common.run_sharded(run_case, cases):
        run.feed(r)
    run.assumptions = [
        "expected header = public declarations of the generator's own tree in order, pub flag cleared, function bodies removed, everything else identical",
        "exhaustive over kind x public/private choices for up to %d declarations (quick samples a quarter of the 3-declaration patterns)" % maxn,
    ]
    return run.finish(
        rule="pattern cases: every sequence of <= %d declarations over {const, fn, fn head, struct, word} x every public/private mask; random cases: "
             "1-8 declarations incl. imports with bodies of up to 12 statements. distinct_nontrivial = distinct (public/private pattern, kinds)" % maxn,
        exhaustive=True, min_evaluations=200)
