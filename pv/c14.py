"""C14 - both lexers implement the same lexical grammar, with exact spans.

 1. exhaustive: every string up to a length over an alphabet of lexically significant characters (enumerated inside
    the worker) is lexed by both lexers and the normal forms (kinds, payloads, suffix types, byte spans, lines,
    error codes and positions) are compared;
 2. by construction: token sequences whose kinds, values, spans and lines the generator knows (random spellings,
    whitespace, comments, CRLF) must be reproduced exactly by both lexers;
 3. injected illegal lexemes must be reported by both lexers with the documented code at their position;
 4. corpus, mutated corpus and token soup through the differential comparison."""
import json

from . import common, gen_mutate, gen_syntax
from .common import HELD, VIOLATED, INCONCLUSIVE

PROP = "C14"

MAIN = list("abefiux_01289 \t\n\r(){}[]<>|&^!+-*/%:;.,=\"'\\#@") + ["é"]
LITERAL = list("01xb_iu8 ")
QUOTE = list("'\"\\nxu{}41 \n\r\t\x07\x7f")

PUNCT = {"(": "ParenLeft", ")": "ParenRight", "{": "BraceLeft", "}": "BraceRight", "[": "BracketLeft", "]": "BracketRight",
         "<": "AngleLeft", ">": "AngleRight", "|": "Pipe", "&": "Ampersand", "^": "Caret", "!": "Exclamation",
         "+": "Plus", "-": "Minus", "*": "Times", "/": "Divide", "%": "Modulo", ":": "Colon", ";": "Semicolon", ".": "Dot",
         ",": "Comma", "=": "Assignment", "==": "Equals", "!=": "DoesNotEqual", ">=": "IsGE", "<=": "IsLE", "<<": "ShiftLeft",
         ">>": "ShiftRight", "->": "Arrow", "|:": "PipeForType", "..": "Dots", "_": "Placeholder"}
KEYWORDS = {"fn": "Fn", "var": "Var", "const": "Const", "if": "If", "goto": "Goto", "loop": "Loop", "else": "Else",
            "cast": "Cast", "as": "As", "import": "Import", "pub": "Pub", "extern": "Extern", "struct": "Struct",
            "word8": "Word8", "word16": "Word16", "word32": "Word32", "word64": "Word64", "word128": "Word128"}
TYPES = {"i8": "Int8", "i16": "Int16", "i32": "Int32", "i64": "Int64", "i128": "Int128", "u8": "Uint8", "u16": "Uint16",
         "u32": "Uint32", "u64": "Uint64", "u128": "Uint128", "usize": "Usize", "char8": "Char8", "bool": "Bool", "void": "Void"}
INT_SUFFIXES = ["i8", "i16", "i32", "i64", "i128", "u8", "u16", "u32", "u64", "u128", "usize"]
MERGE = {("<", "<"), ("<", "="), (">", ">"), (">", "="), ("=", "="), ("!", "="), ("-", ">"), ("|", ":"), (".", "."), ("/", "/")}
ESC = {10: "\\n", 13: "\\r", 9: "\\t", 92: "\\\\", 39: "\\'", 34: '\\"', 0: "\\0"}


def underscores(rng, digits):
    return "".join(ch + ("_" if i < len(digits) - 1 and rng.random() < 0.2 else "") for i, ch in enumerate(digits))


def gen_int(rng):
    v = rng.choice([0, 1, 7, 255, 256, 65535, 2 ** 32, 2 ** 64 - 1, 2 ** 127, 2 ** 128 - 1, rng.randrange(0, 1 << rng.randrange(1, 129)),
                    rng.choice(gen_syntax.BOUNDARY_INTS)])
    form = rng.choice(["dec", "dec", "hex", "HEX", "bin"])
    if form == "dec":
        text = underscores(rng, str(v))
        kind = "NakedDecimal"
    elif form == "hex":
        text = "0x" + underscores(rng, "%x" % v)
        kind = "BitInteger"
    elif form == "HEX":
        text = "0x" + underscores(rng, "%X" % v)
        kind = "BitInteger"
    else:
        text = "0b" + underscores(rng, bin(v)[2:])
        kind = "BitInteger"
    if form != "dec" and rng.random() < 0.15:
        # leading zeros: up to and beyond 128 binary / 32 hexadecimal digits (only the value can be too big, E140)
        digits = bin(v)[2:] if form == "bin" else ("%x" % v)
        full = 128 if form == "bin" else 32
        total = rng.choice([full, full, full - 1, full + 1, full + 12, len(digits) + 1])
        if total >= len(digits):
            text = text[:2] + underscores(rng, "0" * (total - len(digits)) + digits)
    vt = None
    if form != "dec" and rng.random() < 0.15:
        text += "_"         # a separator may also follow the last digit (before a suffix or at the end of the literal)
    if rng.random() < 0.4:
        s = rng.choice(INT_SUFFIXES)
        text += s
        kind = "SuffixedInteger"
        vt = TYPES[s]
    return text, kind, str(v), vt


def gen_token(rng):
    """(text, kind, payload, vt, string bytes or None)"""
    c = rng.random()
    if c < 0.3:
        t = rng.choice(list(PUNCT))
        return t, PUNCT[t], None, None, None
    if c < 0.42:
        t = rng.choice(list(KEYWORDS))
        return t, KEYWORDS[t], None, None, None
    if c < 0.5:
        t = rng.choice(list(TYPES))
        return t, "ValueTypeKeyword", None, TYPES[t], None
    if c < 0.65:
        while True:
            n = rng.choice("abcxyz_ABCfiuw") + "".join(rng.choice("abcdefxyz_ABC0123456789") for _ in range(rng.randrange(0, 9)))
            if n not in KEYWORDS and n not in TYPES and n not in ("true", "false", "_", "return"):
                break
        if rng.random() < 0.2:
            return n + "!", "Builtin", n, None, None
        return n, "Identifier", n, None, None
    if c < 0.8:
        text, kind, payload, vt = gen_int(rng)
        return text, kind, payload, vt, None
    if c < 0.84:
        b = rng.random() < 0.5
        return ("true" if b else "false"), "BoolLiteral", "1" if b else "0", None, None
    if c < 0.9:
        b = rng.randrange(0, 256)
        forms = ["\\x%02X" % b]
        if b in ESC:
            forms.append(ESC[b])
        if 32 <= b < 127 and b not in (39, 92):
            forms.append(chr(b))
        return "'" + rng.choice(forms) + "'", "CharLiteral", str(b), None, None
    # string
    s = ""
    data = b""
    for _ in range(rng.randrange(0, 8)):
        r = rng.random()
        if r < 0.3:
            b = rng.randrange(0, 256)
            s += "\\x%02x" % b
            data += bytes([b])
        elif r < 0.45:
            b = rng.choice(list(ESC))
            s += ESC[b]
            data += bytes([b])
        elif r < 0.55:
            cp = rng.choice([0x41, 0xE9, 0x20AC, 0x1F600, 0x10FFFF, 0xD7FF, 0xE000, 0x100000, 0xFFFF, 0x10000, 0x7F, 0x80])
            digits = "%x" % cp
            # one to six digits: leading zeros up to six are part of the grammar
            s += "\\u{%s}" % (digits.rjust(rng.randrange(len(digits), 7), "0") if rng.random() < 0.4 else digits)
            data += chr(cp).encode()
        elif r < 0.65:
            ch = rng.choice("é€日")
            s += ch
            data += ch.encode()
        else:
            ch = rng.choice("abc XYZ09_-+;{}()/|&<>=!.,:%^*#@$~?`[]")
            s += ch
            data += ch.encode()
    return '"' + s + '"', "StringLiteral", None, None, data


def wordlike(ch):
    return ch.isalnum() or ch == "_"


def separator(rng, crlf):
    nl = "\r\n" if crlf else "\n"
    r = rng.random()
    if r < 0.5:
        return " " * rng.randrange(1, 3)
    if r < 0.65:
        return "\t"
    if r < 0.85:
        return nl + ("\t" if rng.random() < 0.3 else "")
    return " // " + rng.choice(["comment", "\"quote", "'", "x = 1; }", "é€", "/* */", "\\"]) + nl


def build_sequence(rng, n):
    crlf = rng.random() < 0.25
    text = ""
    expected = []
    prev = None
    for _ in range(n):
        tok, kind, payload, vt, data = gen_token(rng)
        sep = ""
        need = prev is None and False
        if prev is not None:
            a, b = prev[-1], tok[0]
            glue_bad = (wordlike(a) and wordlike(b)) or (a, b) in MERGE or (wordlike(a) and b == "!") or \
                       (a in "\"'" and False) or (prev == "_" and wordlike(b)) or (wordlike(a) and tok == "_")
            if glue_bad or rng.random() < 0.75:
                sep = separator(rng, crlf)
        text += sep
        start = len(text.encode("utf-8"))
        line = text.count("\n") + 1
        text += tok
        end = len(text.encode("utf-8"))
        expected.append({"k": kind, "p": payload, "vt": vt, "s": start, "e": end, "l": line,
                         "hex": data.hex() if data is not None else None})
        prev = tok
    if rng.random() < 0.5:
        text += separator(rng, crlf)
    return text, expected


def check_sequence(text, expected):
    kind, r = common.call({"op": "lex3", "src": text, "tokens": True}, build="chk", timeout=60)
    if kind == "crash":
        return "lexer crash: " + r.signature(), r.to_json()
    if kind == "panic":
        return "lexer " + common.panic_signature(r), r
    for which in ("alpha", "delta"):
        toks = r[which]
        errs = r["alpha_errors"] if which == "alpha" else r["delta_errors_collapsed"]
        if errs:
            return "%s reports a lexical error on a valid token sequence (E%d)" % (which, errs[0][0]), {"errors": errs[:3]}
        if len(toks) != len(expected):
            return "%s splits a valid token sequence into a different number of tokens" % which, \
                   {"expected": len(expected), "observed": len(toks)}
        for i, (t, e) in enumerate(zip(toks, expected)):
            k = e["k"]
            if t["k"] != k:
                return "%s: token kind %s instead of %s" % (which, t["k"], k), {"index": i, "token": t, "expected": e}
            if (t["s"], t["e"]) != (e["s"], e["e"]):
                return "%s: wrong span for %s" % (which, k), {"index": i, "token": t, "expected": e}
            if t["l"] != e["l"]:
                return "%s: wrong line for %s" % (which, k), {"index": i, "token": t, "expected": e}
            if k == "StringLiteral":
                if which == "alpha" and t["p"] != e["hex"]:
                    return "alpha: wrong decoded bytes for a string literal", {"index": i, "token": t, "expected": e}
            elif e["p"] is not None and t["p"] != e["p"]:
                return "%s: wrong payload for %s" % (which, k), {"index": i, "token": t, "expected": e}
            if e["vt"] is not None and t["vt"] != e["vt"]:
                return "%s: wrong suffix/value type for %s" % (which, k), {"index": i, "token": t, "expected": e}
    if r.get("disagreement"):
        return "lexers disagree: " + r["disagreement"]["class"], r["disagreement"]
    return None, None


ILLEGAL = [("@", 110), ("#", 110), ("$", 110), ("~", 110), ("`", 110), ("?", 110), ("é", 110), ("€", 110), ("\x7f", 110),
           ("\x01", 110), ("12q", 141), ("0x1g", 141), ("007", 141), ("1u7", 141), ("340282366920938463463374607431768211456", 140),
           ("0x100000000000000000000000000000000", 140), ("0b1" + "0" * 128, 140), ("0b01" + "0" * 128, 140), ("0x01" + "f" * 32, 140), ('"a\\qb"', 162), ('"\\x1"', 162), ('"\\u{}"', 162), ('"\\u{110000}"', 162),
           ('"\\u{0000041}"', 162), ('"\\u{00010FF}"', 162), ('"\\u{0000000}"', 162), ('"\\u{00000041}"', 162), ('"a\\u{0010FFFF}"', 162),
           ("'\\u{0000041}'", 162), ('"\\u{D800}"', 162), ('"\\u{DFFF}"', 162), ('"x\\u{dabc}y"', 162), ("'ab'", 163), ("''", 163), ("'€'", 163), ("'\\u{41}'", 162)]

# lexemes with two independent defects: the value does not fit 128 bits and the suffix is not a type (the length is judged
# first, E140); a leading zero or an empty digit string with a further defect behind it (E141)
_BIG = ["340282366920938463463374607431768211456", "9" * 45, "0x1" + "0" * 32, "0x" + "f" * 33, "0b1" + "0" * 128, "0b" + "1" * 129]
ILLEGAL += [(b + s, 140) for b in _BIG for s in ("u9", "_km", "i32x", "zz", "q", "_", "_u7", "i0")]
ILLEGAL += [(z, 141) for z in ("007" + "9" * 40, "00" + "9" * 40 + "u9", "12q_" + "9" * 45, "0x" + "u9", "0b2" + "1" * 130, "0xg" + "0" * 40)]


def run_case(case):
    kind = case[0]
    if kind == "enum":
        _, name, alphabet, max_len, shard, nshards = case
        k, r = common.call({"op": "lex3_enum", "alphabet": alphabet, "max_len": max_len, "shard": shard, "nshards": nshards},
                           build="rel", timeout=3000)
        if k != "resp":
            sig = r.signature() if k == "crash" else common.panic_signature(r)
            return {"verdict": VIOLATED, "sig": "lexer crash during exhaustive enumeration: " + sig, "detail": str(r)[:300],
                    "replay": {"alphabet": alphabet, "max_len": max_len}}
        out = []
        cov = {"enum_strings": r["strings"], "enum_strings_with_errors": r["strings_with_lexical_errors"],
               "enum_tokens": r["tokens_seen"], "enum_%s_strings" % name: r["strings"]}
        for c in r["classes"]:
            out.append({"verdict": VIOLATED, "sig": "lexers disagree: " + c["class"], "detail": c,
                        "replay": {"source": c["witness"], "count": c["count"]}})
        out.append({"verdict": HELD, "cov": cov, "nt": "enum:%s:%d:%d" % (name, max_len, shard)})
        # each enumerated string is an evaluation of its own
        out[-1]["cov"]["__evaluations"] = r["strings"] - 1
        return out
    if kind == "seq":
        _, seed, i = case
        rng = common.rng_for(seed, PROP, "seq", i)
        text, expected = build_sequence(rng, rng.choice([1, 2, 3, 5, 10, 30, 80]))
        sig, detail = check_sequence(text, expected)
        cov = {"constructed_sequences": 1, "constructed_tokens": len(expected)}
        for e in expected:
            cov["kind:" + e["k"]] = cov.get("kind:" + e["k"], 0) + 1
        if sig:
            return {"verdict": VIOLATED, "sig": sig, "detail": detail, "replay": {"source": text, "expected": expected}, "cov": cov}
        kinds = sorted(set(e["k"] for e in expected))
        return {"verdict": HELD, "cov": cov, "nt": "seq:%d:%s" % (len(expected), common.stable_hash(kinds)),
                "sample": {"source": text[:300], "tokens": expected[:4]} if i % 400 == 0 else None}
    if kind == "illegal":
        _, seed, i = case
        rng = common.rng_for(seed, PROP, "illegal", i)
        lexeme, code = ILLEGAL[i % len(ILLEGAL)]
        before, exp_b = build_sequence(rng, rng.randrange(0, 6))
        after, _exp_a = build_sequence(rng, rng.randrange(0, 4))
        sep1 = rng.choice([" ", "\n", "\t"])
        text = before + sep1 + lexeme + rng.choice([" ", "\n"]) + after
        start = len((before + sep1).encode())
        end = start + len(lexeme.encode())
        k, r = common.call({"op": "lex3", "src": text, "tokens": False}, build="chk", timeout=60)
        replay = {"source": text, "lexeme": lexeme, "code": code, "span": [start, end]}
        cov = {"illegal_lexemes": 1}
        if k != "resp":
            sig = r.signature() if k == "crash" else common.panic_signature(r)
            return {"verdict": VIOLATED, "sig": "lexer crash on an illegal lexeme: " + sig, "detail": str(r)[:300], "replay": replay, "cov": cov}
        for which, errs in (("alpha", r["alpha_errors"]), ("delta", r["delta_errors_collapsed"])):
            hit = [e for e in errs if e[0] == code and e[1] < end and e[2] >= start]
            if not hit:
                return {"verdict": VIOLATED, "sig": "%s does not report E%d at an illegal lexeme (%s)" % (which, code, lexeme_class(lexeme)),
                        "detail": {"errors": errs[:5]}, "replay": replay, "cov": cov}
        if r.get("disagreement"):
            return {"verdict": VIOLATED, "sig": "lexers disagree: " + r["disagreement"]["class"], "detail": r["disagreement"],
                    "replay": replay, "cov": cov}
        return {"verdict": HELD, "cov": cov, "nt": "illegal:%s" % lexeme}
    if kind == "text":
        _, tag, text = case
        k, r = common.call({"op": "lex3", "src": text, "tokens": False}, build="chk", timeout=60)
        replay = {"source": text}
        cov = {"texts": 1, "text_" + tag: 1}
        if k != "resp":
            sig = r.signature() if k == "crash" else common.panic_signature(r)
            return {"verdict": VIOLATED, "sig": "lexer crash: " + sig, "detail": str(r)[:300], "replay": replay, "cov": cov}
        cov["text_tokens"] = r.get("n_alpha", 0)
        if r.get("disagreement"):
            return {"verdict": VIOLATED, "sig": "lexers disagree: " + r["disagreement"]["class"], "detail": r["disagreement"],
                    "replay": replay, "cov": cov}
        return {"verdict": HELD, "cov": cov, "nt": "text:%s:%d" % (tag, min(r.get("n_alpha", 0), 400) // 10)}
    raise ValueError(kind)


def lexeme_class(lexeme):
    if lexeme[0] in "\"'":
        return "quoted"
    if lexeme[0].isdigit():
        return "number"
    return "character"


def replay_file(path):
    with open(path) as f:
        data = json.load(f)
    common.ensure_worker("chk")
    rp = data["replay"]
    if "source" not in rp:
        print("(enumeration replay: re-run ./check C14)")
        return 0
    k, r = common.call({"op": "lex3", "src": rp["source"], "tokens": True}, build="chk")
    print(json.dumps(r, indent=1)[:3000] if k == "resp" else r)
    if k == "resp" and not r.get("disagreement") and "expected" not in rp:
        print("replay: lexers agree on this input now")
        return 0
    if "expected" in rp:
        sig, _d = check_sequence(rp["source"], rp["expected"])
        if sig is None:
            print("replay: property holds on this input now")
            return 0
    print("VIOLATION property=%s replay=%s" % (PROP, path))
    return 1


def main(tier, seed, replay=None):
    if replay:
        return replay_file(replay)
    common.ensure_worker("chk")
    common.ensure_worker("rel")
    run = common.Run(PROP, tier, seed)
    q = tier == "quick"
    n = common.NPROC
    cases = []
    for name, alphabet, ml in (("main", MAIN, 3 if q else 4), ("literal", LITERAL, 5 if q else 7), ("quote", QUOTE, 5 if q else 6)):
        for s in range(n):
            cases.append(("enum", name, alphabet, ml, s, n))
    cases += [("seq", seed, i) for i in range(1500 if q else 60000)]
    cases += [("illegal", seed, i) for i in range(2 * len(ILLEGAL) if q else 6000)]
    rng = common.rng_for(seed, PROP)
    corpus = gen_mutate.corpus()
    for p, t in corpus:
        cases.append(("text", "corpus", t))
    for i in range(600 if q else 30000):
        p, t = rng.choice(corpus)
        op, t2 = gen_mutate.mutate(rng, t)
        cases.append(("text", "mutant", t2))
    for i in range(300 if q else 20000):
        cases.append(("text", "soup", gen_mutate.token_soup(rng, rng.choice([5, 20, 100]))))
    for r in common.run_sharded(run_case, cases):
        extra = (r.get("cov") or {}).pop("__evaluations", 0)
        run.feed(r)
        run.evaluations += extra
        run.tally[HELD] += extra
    run.assumptions = [
        "normal form: token kind, integer payload, suffix type, byte span (first-generation character offsets converted), line; string payloads are "
        "compared for the first-generation lexer only (the second generation keeps the source span)",
        "sanctioned differences: `return` is an identifier for the first generation and a keyword for the second; an illegal multi-byte character is "
        "one lexeme (per-byte reports of the byte-oriented lexer on continuation bytes are collapsed)",
        "error positions are compatible when the reported spans touch (a missing quote may be reported at the literal or where the quote is missing)",
    ]
    return run.finish(
        rule="exhaustive: all strings of length <= %d over a 45-character alphabet, <= %d over a literal alphabet and <= %d over a quote/escape alphabet, "
             "enumerated in the worker; constructed sequences of 1-80 tokens with known kinds/values/spans/lines; illegal lexemes embedded in valid "
             "sequences; corpus, mutants, token soup. distinct_nontrivial = enumeration shards + distinct (length, kind set) of constructed sequences "
             "+ illegal lexemes + text buckets" % ((3, 5, 5) if q else (4, 7, 6)),
        coverage_extra={"enumerated_strings": int(run.counters.get("enum_strings", 0))},
        exhaustive=True, min_evaluations=1000)
