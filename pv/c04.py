"""C04 - goto only ever jumps forward and outward.

Exhaustive small function bodies (labels, gotos, conditional gotos, nested blocks) plus random
larger ones; the compiler's verdict and code set are compared with an independent label-scope
model, and accepted bodies are executed so that a goto bound to the wrong label shows up."""
import json

from . import common, gen_prog, gen_scope, interp, models
from .common import HELD, VIOLATED, INCONCLUSIVE

PROP = "C04"
RELEVANT = {400, 420}


def compile_src(src, want_ir=True):
    return common.call({"op": "alpha_compile", "files": [{"path": "body.pn", "src": src}],
                        "ir": want_ir, "module_ir": False}, build="chk", timeout=60)


def body_key(body):
    """Shape class of a body for the distinct count: kinds of statements + nesting."""
    def k(stmts):
        return "".join({"label": "L", "goto": "G", "if": "I", "assign": "=", "block": "{" }.get(s[0], "?") +
                       (k(s[1]) + "}" if s[0] == "block" else "") for s in stmts)
    return k(body)


def check_body(body, extra_funcs=None, tag=""):
    body = gen_scope.renumber_bumps(body)
    prog = gen_scope.program_with_main(body, extra_funcs=extra_funcs)
    expected = models.goto_model(body, has_return_label=True)
    src = gen_prog.to_source(prog)
    kind, r = compile_src(src, want_ir=not expected)
    replay = {"source": src, "expected_codes": sorted(expected)}
    cov = {"expected:" + (",".join(map(str, sorted(expected))) or "accept"): 1}
    if kind == "crash":
        return {"verdict": VIOLATED, "sig": tag + "compiler crash: " + r.signature(), "detail": r.to_json(), "replay": replay, "cov": cov}
    if kind == "panic":
        return {"verdict": VIOLATED, "sig": tag + common.panic_signature(r), "detail": r, "replay": replay, "cov": cov}
    if r["status"] == "anyhow":
        return {"verdict": VIOLATED, "sig": tag + "failure without diagnostic", "detail": r, "replay": replay, "cov": cov}
    observed = set(e["code"] for e in r.get("errors", [])) if r["status"] == "errors" else set()
    if r["status"] == "errors":
        cov["multiplicity_400"] = sum(1 for e in r["errors"] if e["code"] == 400)
        cov["multiplicity_420"] = sum(1 for e in r["errors"] if e["code"] == 420)
    if observed != expected or (r["status"] == "errors") != bool(expected):
        missing = sorted(expected - observed)
        extra = sorted(observed - expected)
        if expected and r["status"] == "ok":
            sig = tag + "illegal label use accepted (model expects %s)" % sorted(expected)
        elif not expected:
            sig = tag + "legal body rejected with %s" % sorted(observed)
        else:
            sig = tag + "wrong codes: missing %s, unexpected %s" % (missing, extra)
        replay["observed_codes"] = sorted(observed)
        return {"verdict": VIOLATED, "sig": sig, "detail": {"expected": sorted(expected), "observed": sorted(observed)},
                "replay": replay, "cov": cov}
    nt = ("rej:" if expected else "acc:") + body_key(body)
    if not expected:
        # execute: every bump adds its own power of two, so the path taken is visible
        try:
            _out, status, trace = interp.run_program(prog, step_limit=5000)
        except interp.Undefined as u:
            return {"verdict": INCONCLUSIVE, "detail": "reference interpreter: " + str(u), "cov": cov}
        if trace["gotos"] > 0:
            res = common.run_lli(r["ir"], timeout=20)
            cov["executed"] = 1
            if res["status"] != "ok" or res["code"] != status:
                replay["expected_status"] = status
                replay["observed_status"] = res["code"]
                return {"verdict": VIOLATED, "sig": tag + "accepted body takes a different path than its gotos prescribe",
                        "detail": {"expected_status": status, "observed": res["code"], "lli": res["status"]},
                        "replay": replay, "cov": cov}
    return {"verdict": HELD, "nt": nt, "cov": cov}


OTHER_FN = {"name": "other", "params": [], "ret": None, "body": [("label", "a"), ("label", "b"), ("label", "c")],
            "ret_expr": None, "effectful": False, "index": 0}


def run_case(case):
    kind = case[0]
    out = []
    if kind == "enum":
        _, size, depth, idx, n = case
        cache = {}
        i = 0
        for b in gen_scope.seqs(size, depth, gen_scope.C04_ATOMS, None, cache):
            if not gen_scope.first_label_is_a(b):
                continue
            i += 1
            if i % n != idx:
                continue
            res = check_body(b)
            res.setdefault("cov", {})["enum_size_%d" % size] = 1
            if i % 997 == 1 and res["verdict"] == HELD:
                res["sample"] = {"body": gen_prog.to_source(gen_scope.program_with_main(b)), "expected": sorted(models.goto_model(b, True))}
            out.append(res)
            if size >= 2 and i % 3 == 0:
                nrng = common.rng_for(size, PROP, "noise", i)
                res3 = check_body(gen_scope.insert_noise(nrng, b, nrng.choice([1, 1, 2])))
                res3.setdefault("cov", {})["noise_variants"] = 1
                out.append(res3)
            if i % 7 == 0:
                # the same body as second function of a module: labels of another function are invisible
                res2 = check_body(b, extra_funcs=[OTHER_FN], tag="second function: ")
                res2.setdefault("cov", {})["second_function"] = 1
                out.append(res2)
        return out
    if kind == "ifelse":
        # if/else statements whose two braced branches are each a short label/goto sequence (so that both branches, or a
        # branch and the condition, can be wrong at once), in four surroundings
        _, idx, n = case
        atoms = [("label", "a"), ("label", "b"), ("goto", "a"), ("goto", "b")]
        seqs = [[]] + [[x] for x in atoms] + [[x, y] for x in atoms for y in atoms]
        surroundings = [([], []), ([("label", "a")], []), ([], [("label", "a")]), ([], [("label", "b"), ("label", "a")])]
        i = 0
        for then in seqs:
            for els in seqs:
                for before, after in surroundings:
                    i += 1
                    if i % n != idx:
                        continue
                    st = ("if", gen_scope.cond_true(), ("block", list(then)), ("block", list(els)))
                    body = gen_scope.renumber_bumps(list(before) + [gen_scope.bump(1), st] + list(after))
                    res = check_body(body)
                    res.setdefault("cov", {})["ifelse_bodies"] = 1
                    out.append(res)
        return out
    if kind == "returnlabel":
        # the special label `return` at the end of a function body is a label like any other for gotos and clashes: every
        # combination of jumps to it and of nested labels of that name, once with `return: x` and once with the value missing
        # (E335, the body is kept): the label diagnostics of the two must be the same
        pieces = ["\tgoto return;\n", "\t{\n\t\tgoto return;\n\t}\n", "\tif x == 1\n\t\tgoto return;\n",
                  "\tif x == 1\n\t{\n\t\tgoto return;\n\t}\n\telse\n\t{\n\t\tx = 3;\n\t}\n", "\t{\n\t\treturn:\n\t\tx = 2;\n\t}\n",
                  "\t{\n\t\t{\n\t\t\tgoto return;\n\t\t}\n\t\tx = 4;\n\t}\n", "\tgoto other;\n", "\tother:\n", "\tx = 5;\n",
                  "\t{\n\t\tgoto other;\n\t\tother:\n\t}\n"]
        seqs = [[a] for a in range(len(pieces))] + [[a, b] for a in range(len(pieces)) for b in range(len(pieces))]
        for sq in seqs:
            body = "".join(pieces[k] for k in sq)
            codes = {}
            for form, tail in (("value", "\treturn: x\n"), ("no_value", "\treturn:\n")):
                src = "fn f(y: i32) -> i32\n{\n\tvar x: i32 = y;\n" + body + tail + "}\n"
                k, r = compile_src(src, want_ir=False)
                if k != "resp":
                    sig = r.signature() if k == "crash" else common.panic_signature(r)
                    out.append({"verdict": VIOLATED, "sig": "return label: " + sig, "detail": str(r)[:300], "replay": {"source": src}})
                    break
                codes[form] = sorted(e["code"] for e in r.get("errors", []))
            else:
                want = sorted(codes["value"] + [335])
                replay = {"body": body, "codes_with_value": codes["value"], "codes_without_value": codes["no_value"]}
                if codes["no_value"] != want:
                    out.append({"verdict": VIOLATED, "sig": "label diagnostics change when the value after `return:` is missing",
                                "detail": {"expected": want, "observed": codes["no_value"]}, "replay": replay,
                                "cov": {"return_label_bodies": 1}})
                else:
                    out.append({"verdict": HELD, "nt": "returnlabel:%s" % "-".join(map(str, sq)), "cov": {"return_label_bodies": 1}})
        return out
    if kind == "random":
        _, seed, i = case
        rng = common.rng_for(seed, PROP, "random", i)
        labels = ["a", "b", "c", "d"][: rng.choice([2, 3, 4])]
        b = gen_scope.random_body(rng, rng.randrange(3, 14), 3, labels)
        res = check_body(b, extra_funcs=[OTHER_FN] if i % 3 == 0 else None)
        res.setdefault("cov", {})["random"] = 1
        return res
    raise ValueError(kind)


def replay_file(path):
    with open(path) as f:
        data = json.load(f)
    rp = data["replay"]
    common.ensure_worker("chk")
    kind, r = compile_src(rp["source"])
    if kind != "resp":
        print("VIOLATION property=%s replay=%s" % (PROP, path))
        return 1
    observed = sorted(set(e["code"] for e in r.get("errors", [])))
    print("expected", rp["expected_codes"], "observed", observed)
    if observed != rp["expected_codes"]:
        print("VIOLATION property=%s replay=%s" % (PROP, path))
        return 1
    if "expected_status" in rp:
        res = common.run_lli(r["ir"])
        if res["code"] != rp["expected_status"]:
            print("VIOLATION property=%s replay=%s" % (PROP, path))
            return 1
    print("replay: property holds on this input now")
    return 0


def main(tier, seed, replay=None):
    if replay:
        return replay_file(replay)
    common.ensure_worker("chk")
    run = common.Run(PROP, tier, seed)
    max_size = 4 if tier == "quick" else 6
    depth = 3
    n = common.NPROC
    cases = []
    for size in range(0, max_size + 1):
        shards = 1 if size <= 2 else n
        for idx in range(shards):
            cases.append(("enum", size, depth, idx, shards))
    nrand = 1500 if tier == "quick" else 60000
    cases += [("ifelse", idx, n) for idx in range(n)]
    cases.append(("returnlabel",))
    cases += [("random", seed, i) for i in range(nrand)]
    results = common.run_sharded(run_case, cases)
    for r in results:
        run.feed(r)
    run.assumptions = [
        "model: a goto is legal iff its label occurs later in the same or an enclosing block; a label clashes iff the same name "
        "occurs in the same block or later in an enclosing block (docs/features.md, docs/errors.md E400/E420)",
        "verdict and the *set* of codes are compared; multiplicities are recorded only",
    ]
    return run.finish(
        rule="exhaustive: all bodies with <= %d statement nodes over {a:, b:, goto a/b, if..goto a/b, x=x+k, {..}} with block depth <= %d, "
             "one representative per a<->b renaming, every 7th also as second function of a module; plus %d random bodies (<= 13 top-level "
             "statements, if/else blocks, 2-4 label names). distinct_nontrivial = distinct statement-shape strings (verdict-tagged)"
             % (max_size, depth, nrand),
        exhaustive=True, min_evaluations=1000)
