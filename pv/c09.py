"""C09 - literals mean exactly what they say.

Matrix: integer type x boundary/random value x spelling (decimal, 0x, 0b, `_`, leading zeros, case) x typing
(declaration, suffix, both) x negation; every byte value in char and string literals through every escape
form; \\u{..} boundaries; adjacent-literal concatenation; malformed forms with their documented codes.
Oracle: the mathematical value (docs); in range => printed exactly and no L1142; out of range => L1142 on that
line; >= 2^128 => E140; malformed => E141/E160/E161/E162/E163."""
import json

from . import common
from .common import HELD, VIOLATED, INCONCLUSIVE
from .gen_prog import INTS, INTS_S, INTS_U, int_range, BITS

PROP = "C09"


def spell(rng, v, form):
    if form == "dec":
        return str(v)
    if form == "dec_":
        s = str(v)
        out = ""
        for i, ch in enumerate(s):
            out += ch
            if i < len(s) - 1 and rng.random() < 0.4:
                out += "_"
        return out
    if form == "hex":
        return "0x%x" % v
    if form == "HEX":
        return "0x%X" % v
    if form == "hex_":
        s = "%x" % v
        return "0x" + "".join(ch + ("_" if i < len(s) - 1 and rng.random() < 0.4 else "") for i, ch in enumerate(s))
    if form == "hex0":
        return "0x" + "0" * rng.randrange(1, 4) + "%x" % v
    if form == "bin":
        return "0b" + bin(v)[2:]
    if form == "bin_":
        s = bin(v)[2:]
        return "0b" + "".join(ch + ("_" if i < len(s) - 1 and rng.random() < 0.3 else "") for i, ch in enumerate(s))
    if form == "bin0":
        return "0b" + "0" * rng.randrange(1, 4) + bin(v)[2:]
    raise ValueError(form)


FORMS = ["dec", "dec_", "hex", "HEX", "hex_", "hex0", "bin", "bin_", "bin0"]


def boundary_values(t):
    lo, hi = int_range(t)
    vals = {0, 1, 2, hi, hi + 1, hi - 1, -lo, -lo + 1, 2 ** 32 - 1, 2 ** 32, 2 ** 32 + 1, 2 ** 64 - 1, 2 ** 64,
            2 ** 127 - 1, 2 ** 127, 2 ** 127 + 1, 2 ** 128 - 1, 255, 256, 127, 128, 65535, 65536, 2 ** 31, 2 ** 63}
    return sorted(v for v in vals if v >= 0)


def int_cells(rng, tier):
    """(type, magnitude, form, mode, negated)"""
    cells = []
    for t in INTS:
        vals = boundary_values(t)
        for _ in range(8 if tier == "quick" else 64):
            k = rng.randrange(1, 129)
            vals.append(rng.randrange(0, 1 << k))
        for v in vals:
            forms = FORMS if tier != "quick" else ["dec"] + rng.sample(FORMS[1:], 2)
            for form in forms:
                modes = ["decl", "suffix", "both"] if tier != "quick" else [rng.choice(["decl", "suffix", "both"])]
                for mode in modes:
                    cells.append((t, v, form, mode, False))
                    if t in INTS_S and v > 0 and (form.startswith("dec") or rng.random() < 0.3):
                        cells.append((t, v, form, mode, True))
                    if t not in INTS_S and 0 < v < 2 ** 127 and form.startswith("dec") and mode == "decl" and rng.random() < 0.25:
                        # a negative decimal literal for an unsigned type is out of range: L1142 (with a suffix or in another
                        # base it would be the operator `-` on an unsigned operand, E550, which C07 owns)
                        cells.append((t, v, form, mode, True))
    return cells


CONTEXTS = ["decl", "decl", "decl", "assign", "arg_scalar", "arg_array", "arg_struct", "array_decl", "struct_decl", "ret",
            "condition", "condition_left", "index_target"]


def int_program(rng, cells):
    """One literal per cell, each in one of several syntactic contexts (declaration, assignment, scalar argument, element of an
    array literal or member of a structure literal passed directly as an argument, element/member of a declared aggregate,
    return value); `line` is the line the literal stands on."""
    helpers = []
    have = set()

    def need(kind, t):
        if (kind, t) in have:
            return
        have.add((kind, t))
        if kind == "id":
            helpers.append("fn id_%s(x: %s) -> %s\n{\n\treturn: x\n}\n" % (t, t, t))
        elif kind == "first":
            helpers.append("fn first_%s(x: []%s) -> %s\n{\n\treturn: x[0]\n}\n" % (t, t, t))
        elif kind == "box":
            helpers.append("struct Box_%s\n{\n\tv: %s,\n\tpad: u8,\n}\n" % (t, t))
        elif kind == "unbox":
            need("box", t)
            helpers.append("fn unbox_%s(b: Box_%s) -> %s\n{\n\treturn: b.v\n}\n" % (t, t, t))
    body = []
    meta = []
    rets = []
    for i, (t, v, form, mode, neg) in enumerate(cells):
        lit = spell(rng, v, form)
        if mode in ("suffix", "both"):
            lit += t
        if neg:
            lit = "-" + lit
        ctx = rng.choice(CONTEXTS)
        ann = (": " + t) if mode in ("decl", "both") else ""
        var = "v%d" % i
        at = 0      # index (in body) of the line holding the literal
        if ctx == "decl":
            stmts = ["\tvar %s%s = %s;" % (var, ann, lit)]
        elif ctx == "assign":
            stmts = ["\tvar %s: %s = 0;" % (var, t), "\t%s = %s;" % (var, lit)]
            at = 1
        elif ctx == "arg_scalar":
            need("id", t)
            stmts = ["\tvar %s%s = id_%s(%s);" % (var, ann, t, lit)]
        elif ctx == "arg_array":
            need("first", t)
            stmts = ["\tvar %s%s = first_%s([%s, 0]);" % (var, ann, t, lit)]
        elif ctx == "arg_struct":
            need("unbox", t)
            stmts = ["\tvar %s%s = unbox_%s(Box_%s { v: %s, pad: 0 });" % (var, ann, t, t, lit)]
        elif ctx == "array_decl":
            stmts = ["\tvar a%d: [2]%s = [0, %s];" % (i, t, lit), "\tvar %s%s = a%d[1];" % (var, ann, i)]
        elif ctx == "struct_decl":
            need("box", t)
            stmts = ["\tvar b%d = Box_%s { v: %s, pad: 0 };" % (i, t, lit), "\tvar %s%s = b%d.v;" % (var, ann, i)]
        elif ctx in ("condition", "condition_left"):
            if ctx == "condition_left" and mode == "decl":
                ctx = "condition"       # an unsuffixed literal on the left of a comparison has no type to be inferred from (E582)
            # the literal stands in the condition of an `if` (on either side); its value is observed through a variable of its type
            cmp_ = "%s == k%d" % (lit, i) if ctx == "condition_left" else "k%d == %s" % (i, lit)
            stmts = ["\tvar k%d: %s = 0;" % (i, t), "\tvar %s: %s = 0;" % (var, t), "\tif %s" % cmp_, "\t{", "\t\t%s = 1;" % var, "\t}",
                     "\t%s = %s;" % (var, lit)]
            at = 2
        elif ctx == "index_target":
            # ... and in the index of the target of an assignment (type usize whatever the element type; only for usize cells)
            if t != "usize":
                stmts = ["\tvar %s%s = %s;" % (var, ann, lit)]
                ctx = "decl"
            else:
                stmts = ["\tvar g%d: [4]u8 = [0, 0, 0, 0];" % i, "\tg%d[%s %% 4] = 7;" % (i, lit), "\tvar %s: usize = %s;" % (var, lit)]
                at = 1
        else:
            rets.append((i, t, lit))
            stmts = ["\tvar %s%s = ret_%d();" % (var, ann if ann else ": " + t, i)]
            at = None
        meta.append({"type": t, "value": -v if neg else v, "literal": lit, "var": var, "form": form, "mode": mode, "context": ctx,
                     "_at": (len(body) + at) if at is not None else None})
        body += stmts
    head = []
    for i, t, lit in rets:
        head.append("fn ret_%d() -> %s\n{\n\treturn: %s\n}\n" % (i, t, lit))
    prelude = "\n".join(helpers + head)
    pre_lines = prelude.count("\n") + (1 if prelude else 0)
    lines = ([prelude] if prelude else []) + ["fn main() -> i32", "{"] + body
    first_body_line = pre_lines + 3
    ret_line = {}
    n = 0
    for chunk in helpers:
        n += chunk.count("\n") + 1
    for i, t, lit in rets:
        ret_line[i] = n + 3
        n += 5
    for i, m in enumerate(meta):
        at = m.pop("_at")
        m["line"] = first_body_line + at if at is not None else ret_line[i]
    for m in meta:
        lines.append("\tprint!(%s, \"\\n\");" % m["var"])
    lines += ["\treturn: 0", "}"]
    src = "\n".join(lines) + "\n"
    # self-check of the line bookkeeping: the literal text must stand on the line recorded for it
    src_lines = src.split("\n")
    for m in meta:
        if m["literal"] not in src_lines[m["line"] - 1]:
            raise common.HarnessError("line bookkeeping of the literal program is off for %r" % (m,))
    return src, meta


def compile_src(src):
    return common.call({"op": "alpha_compile", "files": [{"path": "lit.pn", "src": src}], "ir": True, "module_ir": False},
                       build="chk", timeout=60)


def check_int_program(src, meta):
    k, r = compile_src(src)
    replay = {"source": src}
    cov = {"int_literals": len(meta), "int_programs": 1}
    if k == "crash":
        return [{"verdict": VIOLATED, "sig": "compiler crash on integer literals: " + r.signature(), "detail": r.to_json(), "replay": replay, "cov": cov}]
    if k == "panic":
        return [{"verdict": VIOLATED, "sig": "integer literals: " + common.panic_signature(r), "detail": r, "replay": replay, "cov": cov}]
    if r["status"] != "ok":
        codes = sorted(set(e["code"] for e in r.get("errors", [])))
        lines = sorted(set(e["line"] for e in r.get("errors", [])))
        bad = [m for m in meta if m["line"] in lines][:3]
        return [{"verdict": VIOLATED, "sig": "representable literal rejected with %s (%s)" % (codes, class_of(bad[0]) if bad else "?"),
                 "detail": {"codes": codes, "literals": bad}, "replay": replay, "cov": cov}]
    lint_lines = {}
    for l in r.get("lints", []):
        if l["code"] == 1142:
            lint_lines[l["line"]] = lint_lines.get(l["line"], 0) + 1
    res = common.run_lli(r["ir"], timeout=30)
    if res["status"] != "ok":
        return [{"verdict": INCONCLUSIVE, "detail": "lli " + res["status"]}]
    outs = res["stdout"].decode("latin-1").split("\n")
    results = []
    for i, m in enumerate(meta):
        lo, hi = int_range(m["type"])
        in_range = lo <= m["value"] <= hi
        linted = m["line"] in lint_lines
        if m["value"] < 0 and not m["form"].startswith("dec"):
            # `-0x80i8` is the operator `-` applied to the literal `0x80i8`; the literal that must be
            # representable is the magnitude (the sign is folded into decimal literals only)
            if -m["value"] > hi:
                in_range = False
                if -m["value"] == hi + 1 and not linted:
                    in_range = True     # |min|: either reading is defensible; the value must then be right
        got = outs[i] if i < len(outs) else None
        cell = "%s|%s|%s|%s|%s" % (m["type"], m["form"], m["mode"], "neg" if m["value"] < 0 else "pos", m.get("context", "decl"))
        rp = {"source": src, "literal": m, "observed": got, "L1142": linted}
        if in_range:
            if got != str(m["value"]):
                results.append({"verdict": VIOLATED, "sig": "literal denotes a different value at run time (%s)" % class_of(m),
                                "detail": {"literal": m["literal"], "type": m["type"], "expected": str(m["value"]), "observed": got},
                                "replay": rp})
            elif linted:
                results.append({"verdict": VIOLATED, "sig": "in-range literal raises L1142 (%s)" % class_of(m),
                                "detail": {"literal": m["literal"], "type": m["type"]}, "replay": rp})
            else:
                results.append({"verdict": HELD, "nt": "int:in:" + cell + ":" + bucket(m["value"])})
        else:
            if not linted:
                results.append({"verdict": VIOLATED, "sig": "out-of-range literal silently altered, no L1142 (%s)" % class_of(m),
                                "detail": {"literal": m["literal"], "type": m["type"], "observed": got}, "replay": rp})
            else:
                results.append({"verdict": HELD, "nt": "int:out:" + cell + ":" + bucket(m["value"])})
    results[0]["cov"] = cov
    return results


def bucket(v):
    a = abs(v)
    return ("-" if v < 0 else "") + str(a.bit_length())


def class_of(m):
    v = m["value"]
    lo, hi = int_range(m["type"])
    where = "min" if v == lo else "max" if v == hi else "below min" if v < lo else "above max" if v > hi else "inside"
    ctx = m.get("context", "decl")
    return "%s %s %s %s%s" % (m["type"], m["form"].rstrip("_0").lower(), "negated" if v < 0 else "plain", where,
                              "" if ctx in ("decl",) else " in " + ctx)


# ---- characters and strings

ESC = {10: "\\n", 13: "\\r", 9: "\\t", 92: "\\\\", 39: "\\'", 34: '\\"', 0: "\\0"}


def char_forms(b):
    forms = ["\\x%02X" % b, "\\x%02x" % b]
    if b in ESC:
        forms.append(ESC[b])
    if 32 <= b < 127 and b not in (39, 92):
        forms.append(chr(b))
    return forms


def char_program(rng):
    lines = ["fn main() -> i32", "{"]
    meta = []
    for b in range(256):
        for f in char_forms(b):
            lines.append("\tvar c%d: char8 = '%s';" % (len(meta), f))
            meta.append({"byte": b, "form": f, "line": len(lines)})
    for i in range(len(meta)):
        lines.append("\tprint!(c%d as u8, \"\\n\");" % i)
    lines += ["\treturn: 0", "}"]
    return "\n".join(lines) + "\n", meta


def utf8(cp):
    return chr(cp).encode("utf-8")


def string_cases(rng, n):
    """[(source pieces (adjacent literals), expected bytes)]"""
    out = []
    for cp in [0x24, 0x7F, 0x80, 0x7FF, 0x800, 0x20AC, 0xFFFF, 0x10000, 0x10FFFF, 0xD7FF, 0xE000]:
        out.append((['"\\u{%x}"' % cp], utf8(cp)))
        out.append((['"a\\u{%X}b"' % cp], b"a" + utf8(cp) + b"b"))
    out.append((['"\u20ac\u00e9"'], "\u20ac\u00e9".encode()))      # raw UTF-8 in the source
    for _ in range(n):
        pieces = []
        exp = b""
        for _p in range(rng.randrange(1, 4)):
            s = ""
            for _c in range(rng.randrange(0, 8)):
                b = rng.randrange(0, 256)
                r = rng.random()
                if r < 0.5:
                    s += "\\x%02X" % b
                    exp += bytes([b])
                elif r < 0.7 and b in ESC:
                    s += ESC[b]
                    exp += bytes([b])
                elif r < 0.8:
                    cp = rng.choice([0x41, 0xE9, 0x20AC, 0x1F600])
                    s += "\\u{%x}" % cp
                    exp += utf8(cp)
                else:
                    ch = rng.choice("abcXYZ 09_-+;{}()/")
                    s += ch
                    exp += ch.encode()
            pieces.append('"' + s + '"')
        out.append((pieces, exp))
    return out


def string_program(rng, cases):
    lines = ["fn main() -> i32", "{"]
    meta = []
    for i, (pieces, exp) in enumerate(cases):
        sep = rng.choice([" ", "\n\t\t", "  \n\t"])
        lines.append("\tvar s%d: []char8 = %s;" % (i, sep.join(pieces)))
        meta.append({"pieces": pieces, "expected": list(exp)})
    for i, m in enumerate(meta):
        lines.append("\tprint!(|s%d|, \":\");" % i)
        for j in range(len(m["expected"])):
            lines.append("\tprint!(s%d[%d] as u8, \",\");" % (i, j))
        lines.append("\tprint!(\"\\n\");")
    lines += ["\treturn: 0", "}"]
    return "\n".join(lines) + "\n", meta


def printed_program(rng, n):
    """String literals passed directly to print! next to non-literal arguments: the bytes must come out as written
    (in particular `%`, which means something to the C formatting function underneath)."""
    lines = ["fn main() -> i32", "{", "\tvar n: i32 = 7;", "\tvar big: u64 = 18446744073709551615;", "\tvar c: char8 = 'B';",
             "\tvar flag: bool = true;"]
    expected = b""
    values = {"n": b"7", "big": b"18446744073709551615", "flag": b"true"}
    count = 0
    for _ in range(n):
        args = []
        for _a in range(rng.randrange(1, 5)):
            if rng.random() < 0.45:
                v = rng.choice(sorted(values))
                args.append(v)
                expected += values[v]
            else:
                s = ""
                for _c in range(rng.randrange(1, 9)):
                    r = rng.random()
                    if r < 0.35:
                        ch = rng.choice(["%", "%d", "%s", "%%", "%n", "% ", "%5", "%c", "%x", "%lu", "%."])
                        s += ch
                        expected += ch.encode()
                    elif r < 0.5:
                        b = rng.choice([1, 9, 27, 37, 127, 128, 255, 92, 34])
                        s += "\\x%02X" % b
                        expected += bytes([b])
                    else:
                        ch = rng.choice("abc XYZ09:;,.{}()[]<>/#&*+-=_")
                        s += ch
                        expected += ch.encode()
                args.append('"' + s + '"')
                count += 1
        lines.append("\tprint!(%s);" % ", ".join(args))
        lines.append("\tprint!(\"\\n\");")
        expected += b"\n"
    lines += ["\treturn: 0", "}"]
    return "\n".join(lines) + "\n", expected, count


MALFORMED = [
    ("suffix_unknown", "var x = 12u7;", {141}), ("suffix_words", "var x = 123127312asd;", {141}),
    ("octal", "var x = 0777;", {141}), ("octal_zero", "var x = 00;", {141}), ("octal_o", "var x = 0o777;", {141}),
    ("suffix_i7", "var x = 1i7;", {141}), ("suffix_u256", "var x = 1u256;", {141}), ("suffix_f32", "var x = 1f32;", {141}),
    ("too_big_dec", "var x: u128 = 340282366920938463463374607431768211456;", {140}),
    ("too_big_dec_suffix", "var x = 340282366920938463463374607431768211456u128;", {140}),
    ("too_big_hex", "var x: u128 = 0x100000000000000000000000000000000;", {140}),
    ("too_big_bin", "var x: u128 = 0b1" + "0" * 128 + ";", {140}),
    ("too_big_i32", "var x = 21387129873219873193219873179318319281731238719273123817239817i32;", {140}),
    ("bad_escape", 'var x = "C:\\Program Files";', {162}), ("bad_escape_q", 'var x = "a\\qb";', {162}),
    ("bad_hex_escape", 'var x = "Is \\x1 valid";', {162}), ("bad_hex_escape2", 'var x = "\\xZZ";', {162}),
    ("bad_u_empty", 'var x = "\\u{}";', {162}), ("bad_u_unclosed", 'var x = "\\u{20ac";', {162}),
    ("bad_u_big", 'var x = "\\u{110000}";', {162}), ("bad_u_surrogate", 'var x = "\\u{D800}";', {162}),
    ("bad_u_huge", 'var x = "\\u{59356bff}";', {162}),
    ("trailing_backslash", 'var x = "abc\\', {161}), ("unclosed_string", 'var x = "abc;', {160}),
    ("unclosed_empty", 'var x = ";', {160}),
    ("empty_char", "var x = '';", {163}), ("multibyte_char", "var x = '\u20ac';", {163}), ("two_chars", "var x = 'ab';", {163}),
    ("bad_char_escape", "var x = '\\q';", {162}),
]


def charbits_program():
    """Hexadecimal and binary literals in a char8 context (the typer gives an untyped bit literal the contextual type, char8
    included): a value above 255 does not fit and must raise L1142 on its line, a value that fits is that byte."""
    vals = [0, 1, 0x41, 0x7f, 0x80, 0xff, 0x100, 0x141, 0x1ff, 0xffff, 0x10041, 2 ** 32 + 0x41, 2 ** 64 + 0x41, 2 ** 128 - 1]
    lines = ["fn show(c: char8)", "{", "\tprint!(c as u8, \"\\n\");", "}", "fn shows(s: []char8)", "{", "\tprint!(s[1] as u8, \"\\n\");", "}",
             "fn main() -> i32", "{", "\tvar t: char8 = 'a';"]
    meta = []
    for v in vals:
        for lit in ("0x%x" % v, "0x%X" % v, "0b" + bin(v)[2:], "0x00%x" % v):
            for ctx in ("decl", "assign", "arg", "array", "array_arg"):
                i = len(meta)
                if ctx == "decl":
                    lines.append("\tvar c%d: char8 = %s; show(c%d);" % (i, lit, i))
                elif ctx == "assign":
                    lines.append("\tt = %s; show(t);" % lit)
                elif ctx == "arg":
                    lines.append("\tshow(%s);" % lit)
                elif ctx == "array":
                    lines.append("\tvar a%d: [2]char8 = [0x48, %s]; show(a%d[1]);" % (i, lit, i))
                else:
                    lines.append("\tshows([0x48, %s]);" % lit)
                meta.append({"value": v, "literal": lit, "context": ctx, "line": len(lines)})
    lines += ["\treturn: 0", "}"]
    return "\n".join(lines) + "\n", meta


def check_charbits():
    src, meta = charbits_program()
    k, r = compile_src(src)
    replay = {"source": src}
    cov = {"char8_bit_literals": len(meta)}
    if k != "resp":
        sig = r.signature() if k == "crash" else common.panic_signature(r)
        return [{"verdict": VIOLATED, "sig": "bit literals as char8: " + sig, "detail": str(r)[:300], "replay": replay, "cov": cov}]
    if r["status"] != "ok":
        codes = sorted(set(e["code"] for e in r.get("errors", [])))
        return [{"verdict": VIOLATED, "sig": "bit literal in a char8 context rejected with %s" % codes, "detail": r.get("errors", [])[:3],
                 "replay": replay, "cov": cov}]
    lint_lines = set(l["line"] for l in r.get("lints", []) if l["code"] == 1142)
    res = common.run_lli(r["ir"], timeout=60)
    if res["status"] != "ok":
        return [{"verdict": INCONCLUSIVE, "detail": "lli " + res["status"]}]
    outs = res["stdout"].decode("latin-1").split("\n")
    results = []
    for i, m in enumerate(meta):
        got = outs[i] if i < len(outs) else None
        linted = m["line"] in lint_lines
        rp = {"source": src, "literal": m, "observed": got, "L1142": linted}
        cls = "char8 %s in %s" % ("binary" if m["literal"].startswith("0b") else "hex", m["context"])
        if m["value"] <= 255:
            if got != str(m["value"]):
                results.append({"verdict": VIOLATED, "sig": "literal denotes a different value at run time (%s)" % cls,
                                "detail": {"literal": m["literal"], "expected": m["value"], "observed": got}, "replay": rp})
            elif linted:
                results.append({"verdict": VIOLATED, "sig": "in-range literal raises L1142 (%s)" % cls, "detail": m, "replay": rp})
            else:
                results.append({"verdict": HELD, "nt": "charbits:in:%s:%d" % (m["context"], m["value"].bit_length())})
        elif not linted:
            results.append({"verdict": VIOLATED, "sig": "out-of-range literal silently altered, no L1142 (%s)" % cls,
                            "detail": {"literal": m["literal"], "observed": got}, "replay": rp})
        else:
            results.append({"verdict": HELD, "nt": "charbits:out:%s:%d" % (m["context"], m["value"].bit_length())})
    results[0]["cov"] = cov
    return results


def run_case(case):
    kind = case[0]
    if kind == "ints":
        _, seed, idx, cells = case
        rng = common.rng_for(seed, PROP, "ints", idx)
        src, meta = int_program(rng, cells)
        return check_int_program(src, meta)
    if kind == "charbits":
        return check_charbits()
    if kind == "chars":
        rng = common.rng_for(case[1], PROP, "chars")
        src, meta = char_program(rng)
        k, r = compile_src(src)
        replay = {"source": src}
        if k != "resp" or r["status"] != "ok":
            codes = sorted(set(e["code"] for e in r.get("errors", []))) if k == "resp" else str(k)
            lines = sorted(set(e["line"] for e in r.get("errors", []))) if k == "resp" else []
            bad = [m for m in meta if m["line"] in lines][:3]
            return {"verdict": VIOLATED, "sig": "valid character literal not accepted: %s" % codes, "detail": bad, "replay": replay}
        res = common.run_lli(r["ir"], timeout=60)
        outs = res["stdout"].decode("latin-1").split("\n")
        results = []
        for i, m in enumerate(meta):
            if i >= len(outs) or outs[i] != str(m["byte"]):
                results.append({"verdict": VIOLATED, "sig": "character literal denotes a different byte (%s)" %
                                ("hex escape" if m["form"].startswith("\\x") else "escape" if m["form"].startswith("\\") else "plain"),
                                "detail": {"literal": m["form"], "expected": m["byte"], "observed": outs[i] if i < len(outs) else None},
                                "replay": replay})
            else:
                results.append({"verdict": HELD, "nt": "char:%d:%s" % (m["byte"], m["form"][:2])})
        results[0]["cov"] = {"char_literals": len(meta)}
        return results
    if kind == "strings":
        _, seed, idx, n = case
        rng = common.rng_for(seed, PROP, "strings", idx)
        cases = string_cases(rng, n)
        src, meta = string_program(rng, cases)
        k, r = compile_src(src)
        replay = {"source": src}
        if k != "resp" or r["status"] != "ok":
            codes = sorted(set(e["code"] for e in r.get("errors", []))) if k == "resp" else str(k)
            return {"verdict": VIOLATED, "sig": "valid string literal not accepted: %s" % codes,
                    "detail": r.get("errors") if k == "resp" else str(r), "replay": replay}
        res = common.run_lli(r["ir"], timeout=60)
        outs = res["stdout"].decode("latin-1").split("\n")
        results = []
        for i, m in enumerate(meta):
            exp = "%d:" % len(m["expected"]) + "".join("%d," % b for b in m["expected"])
            if i >= len(outs) or outs[i] != exp:
                results.append({"verdict": VIOLATED, "sig": "string literal denotes different bytes",
                                "detail": {"pieces": m["pieces"], "expected": exp, "observed": outs[i] if i < len(outs) else None},
                                "replay": replay})
            else:
                results.append({"verdict": HELD, "nt": "str:%d:%d" % (len(m["pieces"]), len(m["expected"]))})
        results[0]["cov"] = {"string_literals": len(meta)}
        results[0]["sample"] = {"string_literal": meta[-1]["pieces"], "bytes": meta[-1]["expected"]}
        return results
    if kind == "printed":
        _, seed, idx, n = case
        rng = common.rng_for(seed, PROP, "printed", idx)
        src, expected, count = printed_program(rng, n)
        k, r = compile_src(src)
        replay = {"source": src, "expected_stdout_hex": expected.hex()}
        if k != "resp" or r["status"] != "ok":
            codes = sorted(set(e["code"] for e in r.get("errors", []))) if k == "resp" else str(k)
            return {"verdict": VIOLATED, "sig": "print! of valid string literals not accepted: %s" % codes,
                    "detail": r.get("errors") if k == "resp" else str(r), "replay": replay}
        res = common.run_lli(r["ir"], timeout=60)
        cov = {"printed_string_literals": count}
        if res["stdout"] != expected:
            got = res["stdout"]
            pos = next((i for i in range(min(len(got), len(expected))) if got[i] != expected[i]), min(len(got), len(expected)))
            return {"verdict": VIOLATED, "sig": "string literal printed next to other arguments comes out with different bytes",
                    "detail": {"first_difference_at": pos, "expected": expected[max(0, pos - 12):pos + 12].decode("latin-1"),
                               "observed": got[max(0, pos - 12):pos + 12].decode("latin-1"), "lli": res["status"]},
                    "replay": replay, "cov": cov}
        return {"verdict": HELD, "nt": "printed:%d:%d" % (n, count % 7), "cov": cov}
    if kind == "malformed":
        _, name, stmt, want = case
        src = "fn main()\n{\n\t%s\n}\n" % stmt
        k, r = compile_src(src)
        replay = {"source": src, "documented": sorted(want)}
        if k != "resp":
            sig = r.signature() if k == "crash" else common.panic_signature(r)
            return {"verdict": VIOLATED, "sig": "malformed literal %s: %s" % (name, sig), "detail": str(r), "replay": replay}
        if r["status"] == "ok":
            return {"verdict": VIOLATED, "sig": "malformed literal accepted: " + name, "detail": stmt, "replay": replay}
        codes = set(e["code"] for e in r.get("errors", []))
        if not (codes & want):
            return {"verdict": VIOLATED, "sig": "malformed literal %s rejected with %s instead of %s" % (name, sorted(codes), sorted(want)),
                    "detail": stmt, "replay": replay}
        return {"verdict": HELD, "nt": "malformed:" + name, "cov": {"malformed_forms": 1}}
    raise ValueError(kind)


def replay_file(path):
    with open(path) as f:
        data = json.load(f)
    rp = data["replay"]
    common.ensure_worker("chk")
    k, r = compile_src(rp["source"])
    print("now:", k, r.get("status") if k == "resp" else r, [e["code"] for e in (r.get("errors") or [])] if k == "resp" else "",
          [(l["code"], l["line"]) for l in (r.get("lints") or [])] if k == "resp" else "")
    if k == "resp" and r["status"] == "ok":
        res = common.run_lli(r["ir"])
        print(res["stdout"][:400])
    print("(re-run ./check C09 to judge)")
    return 0


def main(tier, seed, replay=None):
    if replay:
        return replay_file(replay)
    common.ensure_worker("chk")
    run = common.Run(PROP, tier, seed)
    rng = common.rng_for(seed, PROP)
    cells = int_cells(rng, tier)
    # literals >= 2^128 go to their own programs (E140 rejects the whole file)
    small = [c for c in cells if c[1] < 2 ** 128]
    rng.shuffle(small)
    cases = []
    per = 40
    for i in range(0, len(small), per):
        cases.append(("ints", seed, i, small[i:i + per]))
    cases.append(("chars", seed))
    cases.append(("charbits",))
    nstr = 10 if tier == "quick" else 60
    for i in range(nstr):
        cases.append(("strings", seed, i, 25))
    for name, stmt, want in MALFORMED:
        cases.append(("malformed", name, stmt, want))
    for i in range(20 if tier == "quick" else 400):
        cases.append(("printed", seed, i, 12))
    for r in common.run_sharded(run_case, cases):
        run.feed(r)
    run.assumptions = [
        "value of a literal = its mathematical value in the written base (docs); negation applies to the magnitude",
        "out-of-range literals: only the presence of L1142 on the literal's line is asserted, the run-time value is unconstrained",
        "strings are observed through |s| and s[i] as u8 (not through print! of the string, which would stop at NUL); NUL-free literals are also "
        "passed directly to print! between non-literal arguments and compared byte for byte on stdout",
    ]
    return run.finish(
        rule="integer cells = type x value (boundaries 0,1,max,max+1,|min|,|min|+1,2^32,2^64,2^127,2^128-1 and random widths) x spelling x typing mode "
             "x negation, 40 per program, attributed by line; all 256 byte values x escape forms as char literals; random strings with \\x, escapes, "
             "\\u{..} boundaries and adjacent-literal concatenation; malformed forms with documented codes. distinct_nontrivial = distinct "
             "(type, spelling, typing, sign, in/out of range, bit length) cells + char/string/malformed cells",
        min_evaluations=500)
