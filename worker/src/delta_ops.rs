//! Second-generation front end driven exactly as `compile_to_ir_using_delta`.

use penne::delta::fuzzer;
use penne::delta::lexer;
use penne::delta::lexer::BaseToken;
use penne::delta::parser;

use serde_json::{Value, json};

use crate::alpha_ops::error_to_json;

pub fn tokens_to_json(tokens: &lexer::tokens::Tokens) -> Vec<Value>
{
	let base = tokens.base_tokens();
	let mut out = Vec::with_capacity(base.len());
	if base.is_empty()
	{
		return out;
	}
	let mut id = tokens.first_token_id();
	for (i, bt) in base.iter().enumerate()
	{
		let vap = tokens.get_value_type_and_payload(id);
		let loc = tokens.get_location(id);
		let payload = tokens.get_integer_payload(vap.payload_id());
		out.push(json!({
			"k": format!("{:?}", bt),
			"p": payload.map(|x| x.to_string()),
			"vt": format!("{:?}", vap.value_type()),
			"s": loc.span.start,
			"e": loc.span.end,
			"l": loc.line_number,
			"o": loc.line_offset,
		}));
		if i + 1 < base.len()
		{
			tokens.advance(&mut id);
		}
	}
	out
}

pub fn lex_only(request: &Value) -> Value
{
	let bytes = crate::bytes_of(request);
	let path = request["path"].as_str().unwrap_or("input.pn");
	let tokens = lexer::lex(&bytes, path);
	let errors: Vec<Value> = match tokens.errors()
	{
		Some(errors) => errors.errors.iter().map(error_to_json).collect(),
		None => Vec::new(),
	};
	let list = if request["tokens"].as_bool().unwrap_or(true)
	{
		tokens_to_json(&tokens)
	}
	else
	{
		Vec::new()
	};
	json!({
		"status": "ok",
		"n_tokens": tokens.base_tokens().len(),
		"tokens": list,
		"errors": errors,
	})
}

pub fn front(request: &Value) -> Value
{
	let bytes = crate::bytes_of(request);
	let path = request["path"].as_str().unwrap_or("input.pn");
	let want_tokens = request["tokens"].as_bool().unwrap_or(false);
	let want_xml = request["xml"].as_bool().unwrap_or(true);
	let want_token_xml = request["token_xml"].as_bool().unwrap_or(false);

	let tokens = lexer::lex(&bytes, path);
	let n_tokens = tokens.base_tokens().len();
	let mut out = json!({
		"status": "ok",
		"n_bytes": bytes.len(),
		"n_tokens": n_tokens,
	});
	if want_tokens
	{
		out["tokens"] = json!(tokens_to_json(&tokens));
	}
	if let Some(errors) = tokens.errors()
	{
		let list: Vec<Value> =
			errors.errors.iter().map(error_to_json).collect();
		out["stage"] = json!("lex");
		out["errors"] = json!(list);
		return out;
	}
	let n_error_tokens = tokens
		.base_tokens()
		.iter()
		.filter(|t| **t == BaseToken::Error)
		.count();
	out["n_error_tokens"] = json!(n_error_tokens);

	// The XML dumps take the source as &str (as main.rs does).
	let source: Option<&str> = std::str::from_utf8(&bytes).ok();
	if want_token_xml
	{
		if let Some(source) = source
		{
			let xml: Vec<String> = tokens.as_xml(source).collect();
			out["token_xml"] = json!(xml);
		}
	}

	let parse_tree = parser::parse(&tokens);
	out["n_nodes"] = json!(parse_tree.num_parse_nodes());
	out["n_decls"] = json!(parse_tree.num_declarations());
	if let Some(errors) = parse_tree.errors(&tokens)
	{
		let list: Vec<Value> =
			errors.errors.iter().map(error_to_json).collect();
		out["stage"] = json!("parse");
		out["errors"] = json!(list);
		return out;
	}

	if let Some(source) = source
	{
		let xml: Vec<String> = parse_tree.as_xml(&tokens, source).collect();
		if want_xml
		{
			out["xml"] = json!(xml);
		}
		else
		{
			out["xml_lines"] = json!(xml.len());
		}
	}
	let header = parse_tree.build_header();
	out["header_nodes"] = json!(header.num_parse_nodes());
	out["header_decls"] = json!(header.num_declarations());
	if request["header_kinds"].as_bool().unwrap_or(false)
	{
		// Node-kind monitor over the header's whole node array (the XML dump only follows the declarations): how many
		// nodes of kinds that only occur inside function bodies or mark private zones does the header hold?
		const BODY_KINDS: [&str; 15] = [
			"FunctionBody", "VariableDeclaration", "Assignment", "Loop", "Goto", "Label", "MethodCall", "Comparison", "Then",
			"ThenElse", "If", "Block", "StartPrivateZone", "EndPrivateZone", "EndlessPrivateZone",
		];
		let dump = format!("{:?}", header);
		let mut counts = serde_json::Map::new();
		for word in dump.split(|c: char| !c.is_ascii_alphanumeric())
		{
			if BODY_KINDS.contains(&word)
			{
				let n = counts.get(word).and_then(|v| v.as_u64()).unwrap_or(0);
				counts.insert(word.to_string(), json!(n + 1));
			}
		}
		out["header_body_kinds"] = Value::Object(counts);
	}
	if let Some(source) = source
	{
		let xml: Vec<String> = header.as_xml(&tokens, source).collect();
		if want_xml
		{
			out["header_xml"] = json!(xml);
		}
		else
		{
			out["header_xml_lines"] = json!(xml.len());
		}
	}
	out["stage"] = json!("done");
	out["errors"] = json!([]);
	out
}

pub fn fuzz_tokens(request: &Value) -> Value
{
	let kb = request["kb"].as_u64().unwrap_or(1) as usize;
	let mistakes = request["mistakes"].as_u64().unwrap_or(0) as usize;
	if let Some(seed) = request["seed"].as_u64()
	{
		// Safety: the worker is single threaded.
		unsafe { std::env::set_var("PENNE_VERIF_FUZZ_SEED", seed.to_string()) };
	}
	// Exactly the call made by `penne fuzz tokens --kb N`.
	let capacity = kb * 1096;
	let mut buffer = String::with_capacity(capacity);
	match fuzzer::fill_to_capacity_with_tokens(95, &mut buffer, mistakes)
	{
		Ok(()) => json!({"status": "ok", "text": buffer, "capacity": capacity}),
		Err(e) => json!({"status": "anyhow", "error": e.to_string()}),
	}
}
