//! Lexer monitors (C14/C19): both lexers are run on the same text and
//! their outputs are brought to one normal form (kinds, payloads, suffix
//! types, byte spans, lines, (code, position) of lexical errors).
//! `lex3` returns the normal forms and the first disagreement for one input;
//! `lex3_enum` enumerates all strings up to a length over an alphabet inside
//! the worker and reports disagreement classes with their smallest witness.

use penne::alpha::error::Error as AlphaError;
use penne::alpha::lexer as alpha;
use penne::delta::lexer as delta;
use penne::delta::lexer::BaseToken;

use serde_json::{Value, json};

#[derive(Debug, Clone, PartialEq)]
pub struct NTok
{
	pub kind: String,
	pub payload: Option<String>,
	pub vt: Option<String>,
	pub start: usize,
	pub end: usize,
	pub line: usize,
}

pub struct Lexed
{
	pub tokens: Vec<NTok>,
	/// (code, start byte, end byte)
	pub errors: Vec<(u16, usize, usize)>,
}

fn char_to_byte_offsets(src: &str) -> Vec<usize>
{
	let mut v: Vec<usize> = src.char_indices().map(|(i, _)| i).collect();
	v.push(src.len());
	v
}

pub fn norm_alpha(src: &str) -> Lexed
{
	let map = char_to_byte_offsets(src);
	let at = |c: usize| -> usize {
		if c < map.len()
		{
			map[c]
		}
		else
		{
			src.len() + (c - (map.len() - 1))
		}
	};
	let mut tokens = Vec::new();
	let mut errors = Vec::new();
	for t in alpha::lex(src, "input.pn")
	{
		let start = at(t.location.span.start);
		let end = at(t.location.span.end);
		let line = t.location.line_number;
		match t.result
		{
			Err(e) =>
			{
				let code = AlphaError::Lexical {
					error: e,
					expectation: String::new(),
					location: t.location.clone(),
				}
				.code();
				errors.push((code, start, end));
			}
			Ok(tok) =>
			{
				let (kind, payload, vt): (String, Option<String>, Option<String>) =
					match tok
					{
						alpha::Token::Identifier(s) =>
						{
							("Identifier".into(), Some(s), None)
						}
						alpha::Token::Builtin(s) => (
							"Builtin".into(),
							Some(s.trim_end_matches('!').to_string()),
							None,
						),
						alpha::Token::NakedDecimal(v) =>
						{
							("NakedDecimal".into(), Some(v.to_string()), None)
						}
						alpha::Token::BitInteger(v) =>
						{
							("BitInteger".into(), Some(v.to_string()), None)
						}
						alpha::Token::SuffixedInteger { value, suffix_type } => (
							"SuffixedInteger".into(),
							Some(value.to_string()),
							Some(format!("{:?}", suffix_type)),
						),
						alpha::Token::CharLiteral(b) =>
						{
							("CharLiteral".into(), Some(b.to_string()), None)
						}
						alpha::Token::Bool(b) => (
							"BoolLiteral".into(),
							Some((b as u8).to_string()),
							None,
						),
						alpha::Token::StringLiteral { bytes } => (
							"StringLiteral".into(),
							Some(crate::hex(&bytes)),
							None,
						),
						alpha::Token::Type(vt) => (
							"ValueTypeKeyword".into(),
							None,
							Some(format!("{:?}", vt)),
						),
						other => (format!("{:?}", other), None, None),
					};
				if kind == "Builtin" && payload.as_deref() == Some("return")
				{
					// sanctioned difference: `return` is reserved by the second
					// generation, so `return!` is the keyword followed by `!`
					tokens.push(NTok {
						kind: "Identifier".into(),
						payload: Some("return".into()),
						vt: None,
						start,
						end: end - 1,
						line,
					});
					tokens.push(NTok {
						kind: "Exclamation".into(),
						payload: None,
						vt: None,
						start: end - 1,
						end,
						line,
					});
					continue;
				}
				tokens.push(NTok {
					kind,
					payload,
					vt,
					start,
					end,
					line,
				});
			}
		}
	}
	Lexed { tokens, errors }
}

pub fn norm_delta(src: &[u8]) -> Lexed
{
	let toks = delta::lex(src, "input.pn");
	let base = toks.base_tokens();
	let mut tokens = Vec::new();
	if !base.is_empty()
	{
		let mut id = toks.first_token_id();
		for (i, bt) in base.iter().enumerate()
		{
			if *bt != BaseToken::EndOfSource && *bt != BaseToken::Error
			{
				let vap = toks.get_value_type_and_payload(id);
				let loc = toks.get_location(id);
				let payload = toks
					.get_integer_payload(vap.payload_id())
					.map(|x| x.to_string());
				let text = src.get(loc.span.clone()).unwrap_or(&[]);
				let (payload, vt) = match bt
				{
					BaseToken::Identifier => (
						Some(String::from_utf8_lossy(text).to_string()),
						None,
					),
					BaseToken::Builtin => (
						Some(
							String::from_utf8_lossy(text)
								.trim_end_matches('!')
								.to_string(),
						),
						None,
					),
					BaseToken::ValueTypeKeyword =>
					{
						(None, Some(format!("{:?}", vap.value_type())))
					}
					BaseToken::SuffixedInteger =>
					{
						(payload, Some(format!("{:?}", vap.value_type())))
					}
					BaseToken::NakedDecimal
					| BaseToken::BitInteger
					| BaseToken::CharLiteral
					| BaseToken::BoolLiteral => (payload, None),
					_ => (None, None),
				};
				tokens.push(NTok {
					kind: format!("{:?}", bt),
					payload,
					vt,
					start: loc.span.start,
					end: loc.span.end,
					line: loc.line_number,
				});
			}
			if i + 1 < base.len()
			{
				toks.advance(&mut id);
			}
		}
	}
	let mut errors = Vec::new();
	if let Some(errs) = toks.errors()
	{
		for e in errs.errors.iter()
		{
			let loc = e.verif_primary_location();
			errors.push((e.code(), loc.span.start, loc.span.end));
		}
	}
	Lexed { tokens, errors }
}

/// An illegal multi-byte character is one illegal lexeme: the byte-oriented
/// lexer reports it once per byte; collapse reports on continuation bytes.
fn collapse_multibyte(
	errors: &[(u16, usize, usize)],
	src: &[u8],
) -> Vec<(u16, usize, usize)>
{
	errors
		.iter()
		.copied()
		.filter(|&(code, pos, _end)| {
			!(code == 110 && pos < src.len() && (src[pos] & 0xC0) == 0x80)
		})
		.collect()
}

fn tok_json(t: &NTok) -> Value
{
	json!({"k": t.kind, "p": t.payload, "vt": t.vt, "s": t.start, "e": t.end, "l": t.line})
}

/// First disagreement between the two lexers as (class, detail), or None.
pub fn disagreement(src: &str) -> Option<(String, String)>
{
	if src.contains("return!")
	{
		// `return` is reserved by the second generation only (sanctioned): after
		// `return!` the two token streams legitimately diverge (builtin vs keyword, `!=`)
		return None;
	}
	let a = norm_alpha(src);
	let d = norm_delta(src.as_bytes());
	let de = collapse_multibyte(&d.errors, src.as_bytes());
	// errors: same codes in the same order, at compatible positions (the reported
	// spans must touch: a missing closing quote may be reported at the literal or
	// at the place where the quote is missing)
	let ac: Vec<u16> = a.errors.iter().map(|x| x.0).collect();
	let dc: Vec<u16> = de.iter().map(|x| x.0).collect();
	if ac != dc
	{
		// name the disagreement after what one lexer reports and the other does not
		// (code and the character at the reported position), so that one root cause
		// gives one class whatever surrounds it
		let describe = |errs: &[(u16, usize, usize)]| -> Vec<String> {
			errs.iter()
				.map(|&(code, start, _)| {
					let ch = src[start.min(src.len())..].chars().next();
					match ch
					{
						Some(c) if c.is_ascii_alphanumeric() => format!("E{} at a letter/digit", code),
						Some(c) => format!("E{} at {:?}", code, c),
						None => format!("E{} at end of input", code),
					}
				})
				.collect()
		};
		let mut only_alpha = describe(&a.errors);
		let mut only_delta = Vec::new();
		for d in describe(&de)
		{
			if let Some(pos) = only_alpha.iter().position(|x| *x == d)
			{
				only_alpha.remove(pos);
			}
			else
			{
				only_delta.push(d);
			}
		}
		only_alpha.sort();
		only_alpha.dedup();
		only_delta.sort();
		only_delta.dedup();
		return Some((
			format!(
				"lexical errors differ: only alpha reports {:?}, only delta reports {:?}",
				only_alpha, only_delta
			),
			format!("alpha {:?} delta {:?}", ac, dc),
		));
	}
	for (x, y) in a.errors.iter().zip(de.iter())
	{
		if !(x.1 <= y.2 && y.1 <= x.2)
		{
			return Some((
				format!("position of E{} differs", x.0),
				format!("alpha {}..{} delta {}..{}", x.1, x.2, y.1, y.2),
			));
		}
	}
	let n = a.tokens.len().min(d.tokens.len());
	for i in 0..n
	{
		let (x, y) = (&a.tokens[i], &d.tokens[i]);
		let sanctioned_return = x.kind == "Identifier"
			&& x.payload.as_deref() == Some("return")
			&& y.kind == "Return";
		if x.kind != y.kind && !sanctioned_return
		{
			return Some((
				format!("token kind differs: alpha {} delta {}", x.kind, y.kind),
				format!("token {}", i),
			));
		}
		if x.start != y.start || x.end != y.end
		{
			return Some((
				format!("span differs for {}", y.kind),
				format!("alpha {}..{} delta {}..{}", x.start, x.end, y.start, y.end),
			));
		}
		if x.line != y.line
		{
			return Some((
				format!("line differs for {}", y.kind),
				format!("alpha {} delta {}", x.line, y.line),
			));
		}
		if x.kind != "StringLiteral" && !sanctioned_return && x.payload != y.payload
		{
			return Some((
				format!("payload differs for {}", y.kind),
				format!("alpha {:?} delta {:?}", x.payload, y.payload),
			));
		}
		if x.vt != y.vt
		{
			return Some((
				format!("suffix/value type differs for {}", y.kind),
				format!("alpha {:?} delta {:?}", x.vt, y.vt),
			));
		}
	}
	if a.tokens.len() != d.tokens.len()
	{
		let extra = if a.tokens.len() > n
		{
			format!("alpha has extra {}", a.tokens[n].kind)
		}
		else
		{
			format!("delta has extra {}", d.tokens[n].kind)
		};
		return Some(("token count differs".to_string(), extra));
	}
	None
}

pub fn lex3(request: &Value) -> Value
{
	let bytes = crate::bytes_of(request);
	let want_tokens = request["tokens"].as_bool().unwrap_or(true);
	let d = norm_delta(&bytes);
	let mut out = json!({
		"status": "ok",
		"delta_errors": d.errors,
		"n_delta": d.tokens.len(),
	});
	if want_tokens
	{
		out["delta"] = json!(d.tokens.iter().map(tok_json).collect::<Vec<_>>());
	}
	if let Ok(src) = std::str::from_utf8(&bytes)
	{
		let a = norm_alpha(src);
		out["alpha_errors"] = json!(a.errors);
		out["n_alpha"] = json!(a.tokens.len());
		if want_tokens
		{
			out["alpha"] = json!(a.tokens.iter().map(tok_json).collect::<Vec<_>>());
		}
		out["delta_errors_collapsed"] = json!(collapse_multibyte(&d.errors, &bytes));
		match disagreement(src)
		{
			Some((class, detail)) =>
			{
				out["disagreement"] = json!({"class": class, "detail": detail});
			}
			None => out["disagreement"] = Value::Null,
		}
	}
	out
}

pub fn lex3_enum(request: &Value) -> Value
{
	let alphabet: Vec<String> = request["alphabet"]
		.as_array()
		.map(|a| a.iter().filter_map(|x| x.as_str().map(|s| s.to_string())).collect())
		.unwrap_or_default();
	let max_len = request["max_len"].as_u64().unwrap_or(2) as usize;
	let shard = request["shard"].as_u64().unwrap_or(0) as usize;
	let nshards = request["nshards"].as_u64().unwrap_or(1).max(1) as usize;
	let k = alphabet.len();
	let mut classes: std::collections::BTreeMap<String, (String, String, u64)> =
		std::collections::BTreeMap::new();
	let mut total: u64 = 0;
	let mut with_errors: u64 = 0;
	let mut tokens_seen: u64 = 0;
	let mut idx = vec![0usize; max_len];
	for len in 0..=max_len
	{
		// enumerate all index vectors of this length; shard on the first symbol pair
		for x in idx.iter_mut()
		{
			*x = 0;
		}
		let mut counter: u64 = 0;
		loop
		{
			if (counter as usize) % nshards == shard
			{
				let mut s = String::new();
				for i in 0..len
				{
					s.push_str(&alphabet[idx[i]]);
				}
				total += 1;
				if s.len() > 0
				{
					let a = norm_alpha(&s);
					tokens_seen += a.tokens.len() as u64;
					if !a.errors.is_empty()
					{
						with_errors += 1;
					}
					if let Some((class, detail)) = disagreement(&s)
					{
						let e = classes
							.entry(class)
							.or_insert_with(|| (s.clone(), detail.clone(), 0));
						e.2 += 1;
						if s.len() < e.0.len()
						{
							e.0 = s.clone();
							e.1 = detail;
						}
					}
				}
			}
			counter += 1;
			// increment
			let mut pos = len;
			let mut done = true;
			while pos > 0
			{
				pos -= 1;
				idx[pos] += 1;
				if idx[pos] < k
				{
					done = false;
					break;
				}
				idx[pos] = 0;
			}
			if done || len == 0
			{
				break;
			}
		}
	}
	let list: Vec<Value> = classes
		.into_iter()
		.map(|(class, (witness, detail, n))| {
			json!({"class": class, "witness": witness, "detail": detail, "count": n})
		})
		.collect();
	json!({
		"status": "ok",
		"strings": total,
		"strings_with_lexical_errors": with_errors,
		"tokens_seen": tokens_seen,
		"classes": list,
	})
}
