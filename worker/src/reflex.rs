//! Independent reference lexer (C14/C19). Filled in below.
use serde_json::{Value, json};

pub fn lex3(_request: &Value) -> Value
{
	json!({"status": "bad_request", "error": "not implemented"})
}

pub fn lex3_enum(_request: &Value) -> Value
{
	json!({"status": "bad_request", "error": "not implemented"})
}
