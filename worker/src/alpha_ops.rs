//! First-generation compiler driven exactly as `main.rs` drives it.

use penne::alpha::Compiler;
use penne::alpha::common;
use penne::alpha::error::{Config, Error};
use penne::alpha::expander;
use penne::alpha::lexer;
use penne::alpha::parser;
use penne::alpha::rebuilder;
use penne::alpha::resolved;
use penne::alpha::resolver;
use penne::alpha::scoper;

use serde_json::{Value, json};

use crate::ast_json;
use crate::typemon;

pub fn error_to_json(e: &Error) -> Value
{
	let loc = e.verif_primary_location();
	let dbg = format!("{:?}", e);
	let variant: String = dbg
		.chars()
		.take_while(|c| c.is_alphanumeric() || *c == '_')
		.collect();
	json!({
		"code": e.code(),
		"file": loc.source_filename,
		"start": loc.span.start,
		"end": loc.span.end,
		"line": loc.line_number,
		"line_offset": loc.line_offset,
		"variant": variant,
	})
}

fn render_all(
	errors: &[Error],
	sources: &[(String, String)],
	out: &mut Vec<Value>,
)
{
	// Same configuration as stdout::StdOut::new for the alpha feature.
	for e in errors
	{
		let mut per_config = Vec::new();
		for (color, ascii) in
			[(false, false), (false, true), (true, false), (true, true)]
		{
			let charset = if ascii
			{
				ariadne::CharSet::Ascii
			}
			else
			{
				ariadne::CharSet::Unicode
			};
			let ariadne_config = ariadne::Config::default()
				.with_index_type(ariadne::IndexType::Char)
				.with_color(color)
				.with_char_set(charset);
			let config = Config::from(ariadne_config).with_color(color);
			let report = e.build_report(config);
			let mut buf: Vec<u8> = Vec::new();
			let cache = ariadne::sources(sources.to_vec());
			let res = report.write(cache, &mut buf);
			per_config.push(json!({
				"color": color,
				"ascii": ascii,
				"ok": res.is_ok(),
				"text": String::from_utf8_lossy(&buf),
			}));
		}
		out.push(json!({"code": e.code(), "renders": per_config}));
	}
}

fn flags_json(
	flags: &enumset::EnumSet<common::DeclarationFlag>,
) -> Vec<&'static str>
{
	let mut v = Vec::new();
	for f in flags.iter()
	{
		v.push(match f
		{
			common::DeclarationFlag::Public => "pub",
			common::DeclarationFlag::External => "extern",
			common::DeclarationFlag::Main => "main",
			common::DeclarationFlag::Forward => "forward",
			common::DeclarationFlag::OpaqueStruct => "opaque",
		});
	}
	v
}

fn resolved_summary(decls: &[resolved::Declaration]) -> Vec<Value>
{
	decls
		.iter()
		.map(|d| match d
		{
			resolved::Declaration::Constant { name, flags, .. } =>
			{
				json!({"kind": "const", "name": name.name, "flags": flags_json(flags)})
			}
			resolved::Declaration::Function { name, flags, .. } =>
			{
				json!({"kind": "fn", "name": name.name, "flags": flags_json(flags)})
			}
			resolved::Declaration::FunctionHead { name, flags, .. } =>
			{
				json!({"kind": "fnhead", "name": name.name, "flags": flags_json(flags)})
			}
			resolved::Declaration::Structure { name, flags, .. } =>
			{
				json!({"kind": "struct", "name": name.name, "flags": flags_json(flags)})
			}
		})
		.collect()
}

/// The sequence of `compile_to_ir_using_alpha` in src/main.rs.
pub fn compile(request: &Value) -> Value
{
	let files: Vec<(String, String)> = request["files"]
		.as_array()
		.map(|a| {
			a.iter()
				.map(|f| {
					(
						f["path"].as_str().unwrap_or("").to_string(),
						f["src"].as_str().unwrap_or("").to_string(),
					)
				})
				.collect()
		})
		.unwrap_or_default();
	let wasm = request["wasm"].as_bool().unwrap_or(false);
	let want_render = request["render"].as_bool().unwrap_or(false);
	let want_typemon = request["typemon"].as_bool().unwrap_or(false);
	let want_ir = request["ir"].as_bool().unwrap_or(true);
	let want_module_ir = request["module_ir"].as_bool().unwrap_or(want_ir);

	let mut sources = Vec::new();
	let mut modules = Vec::new();
	for (filename, source) in &files
	{
		let tokens = lexer::lex(source, filename);
		let declarations = parser::parse(tokens);
		let mut source = source.clone();
		if source.is_empty()
		{
			source.push_str(" ");
		}
		sources.push((filename.clone(), source));
		modules.push((std::path::PathBuf::from(filename), declarations));
	}

	let want_spanmon = request["spanmon"].as_bool().unwrap_or(false);
	let mut spans_checked = 0usize;
	if want_spanmon
	{
		// Location monitor: every location stored in the parsed tree must be a forward span inside its source
		// (a backward span makes the diagnostic renderer panic as soon as some error points at that node).
		let mut bad = Vec::new();
		for ((_path, declarations), (filename, source)) in modules.iter().zip(sources.iter())
		{
			let n_chars = source.chars().count();
			let dump = format!("{:?}", declarations);
			let mut rest = dump.as_str();
			while let Some(pos) = rest.find("span: ")
			{
				rest = &rest[pos + 6..];
				let digits = |s: &str| s.chars().take_while(|c| c.is_ascii_digit()).collect::<String>();
				let a = digits(rest);
				if a.is_empty() || !rest[a.len()..].starts_with("..")
				{
					continue;
				}
				let b = digits(&rest[a.len() + 2..]);
				if b.is_empty()
				{
					continue;
				}
				let (a, b): (usize, usize) = (a.parse().unwrap_or(0), b.parse().unwrap_or(0));
				spans_checked += 1;
				if (a > b || b > n_chars.max(1)) && bad.len() < 8
				{
					bad.push(json!({"file": filename, "start": a, "end": b, "chars": n_chars}));
				}
			}
		}
		if !bad.is_empty()
		{
			return json!({"status": "spanmon", "bad": bad, "spans_checked": spans_checked});
		}
	}

	expander::expand(&mut modules);
	for (i, (_filepath, declarations)) in modules.iter().enumerate()
	{
		if let Err(errors) = resolver::check_surface_level_errors(declarations)
		{
			let list: Vec<Value> =
				errors.errors.iter().map(error_to_json).collect();
			let mut renders = Vec::new();
			if want_render
			{
				render_all(&errors.errors, &sources, &mut renders);
			}
			return json!({
				"status": "errors",
				"stage": "surface",
				"module": i,
				"errors": list,
				"renders": renders,
			});
		}
	}

	let mut compiler = Compiler::default();
	if wasm
	{
		if let Err(e) = compiler.for_wasm()
		{
			return json!({"status": "anyhow", "stage": "for_wasm", "error": e.to_string()});
		}
	}

	let mut module_irs = Vec::new();
	let mut all_lints = Vec::new();
	let mut lint_renders = Vec::new();
	let mut summaries = Vec::new();
	let mut typemon_reports = Vec::new();
	let mut typemon_stats = typemon::Stats::default();

	for (i, (filepath, declarations)) in modules.into_iter().enumerate()
	{
		let filename = filepath.to_string_lossy().to_string();
		let declarations = scoper::analyze(declarations);
		if let Err(e) = compiler.add_module(&filename)
		{
			return json!({"status": "anyhow", "stage": "add_module", "module": i, "error": e.to_string()});
		}
		let resolved = match compiler.analyze_and_resolve(declarations)
		{
			Ok(x) => x,
			Err(e) =>
			{
				return json!({"status": "anyhow", "stage": "analyze", "module": i, "error": e.to_string()});
			}
		};
		let declarations = match resolved
		{
			Ok(declarations) => declarations,
			Err(errors) =>
			{
				let list: Vec<Value> =
					errors.errors.iter().map(error_to_json).collect();
				let mut renders = Vec::new();
				if want_render
				{
					render_all(&errors.errors, &sources, &mut renders);
				}
				return json!({
					"status": "errors",
					"stage": "analysis",
					"module": i,
					"errors": list,
					"renders": renders,
					"lints_before": all_lints,
					"spans_checked": spans_checked,
				});
			}
		};
		summaries.push(json!({"module": i, "decls": resolved_summary(&declarations)}));
		if want_typemon
		{
			typemon::check(&declarations, &mut typemon_reports, &mut typemon_stats);
		}
		let lints = compiler.take_lints();
		for l in &lints
		{
			let mut v = error_to_json(l);
			v["module"] = json!(i);
			all_lints.push(v);
		}
		if want_render
		{
			render_all(&lints, &sources, &mut lint_renders);
		}
		if let Err(e) = compiler.compile(&declarations)
		{
			return json!({"status": "anyhow", "stage": "compile", "module": i, "error": e.to_string()});
		}
		match compiler.generate_ir()
		{
			Ok(ir) =>
			{
				if want_module_ir
				{
					module_irs.push(ir);
				}
			}
			Err(e) =>
			{
				return json!({"status": "anyhow", "stage": "generate_ir", "module": i, "error": e.to_string()});
			}
		}
	}

	if let Err(e) = compiler.link_modules()
	{
		return json!({"status": "anyhow", "stage": "link", "error": e.to_string()});
	}
	let full_ir = match compiler.generate_ir()
	{
		Ok(ir) => ir,
		Err(e) =>
		{
			return json!({"status": "anyhow", "stage": "generate_full_ir", "error": e.to_string()});
		}
	};

	json!({
		"status": "ok",
		"lints": all_lints,
		"lint_renders": lint_renders,
		"module_irs": module_irs,
		"ir": if want_ir { Value::String(full_ir) } else { Value::Null },
		"resolved": summaries,
		"typemon": typemon_reports,
		"typemon_stats": typemon_stats.to_json(),
		"spans_checked": spans_checked,
	})
}

fn token_to_json(t: &lexer::LexedToken) -> Value
{
	let loc = &t.location;
	let (kind, payload): (String, Value) = match &t.result
	{
		Ok(tok) => match tok
		{
			lexer::Token::Identifier(s) =>
			{
				("Identifier".to_string(), json!(s))
			}
			lexer::Token::Builtin(s) => ("Builtin".to_string(), json!(s)),
			lexer::Token::NakedDecimal(v) =>
			{
				("NakedDecimal".to_string(), json!(v.to_string()))
			}
			lexer::Token::BitInteger(v) =>
			{
				("BitInteger".to_string(), json!(v.to_string()))
			}
			lexer::Token::SuffixedInteger { value, suffix_type } => (
				"SuffixedInteger".to_string(),
				json!([value.to_string(), format!("{:?}", suffix_type)]),
			),
			lexer::Token::CharLiteral(b) =>
			{
				("CharLiteral".to_string(), json!(b.to_string()))
			}
			lexer::Token::Bool(b) =>
			{
				("BoolLiteral".to_string(), json!((*b as u8).to_string()))
			}
			lexer::Token::StringLiteral { bytes } =>
			{
				("StringLiteral".to_string(), json!(crate::hex(bytes)))
			}
			lexer::Token::Type(vt) =>
			{
				("ValueTypeKeyword".to_string(), json!(format!("{:?}", vt)))
			}
			other => (format!("{:?}", other), Value::Null),
		},
		Err(e) =>
		{
			let code = Error::Lexical {
				error: *e,
				expectation: String::new(),
				location: loc.clone(),
			}
			.code();
			("Error".to_string(), json!(code))
		}
	};
	json!({
		"k": kind,
		"p": payload,
		"s": loc.span.start,
		"e": loc.span.end,
		"l": loc.line_number,
		"o": loc.line_offset,
	})
}

pub fn lex_only(request: &Value) -> Value
{
	let src = request["src"].as_str().unwrap_or("");
	let path = request["path"].as_str().unwrap_or("input.pn");
	let tokens = lexer::lex(src, path);
	let list: Vec<Value> = tokens.iter().map(token_to_json).collect();
	json!({"status": "ok", "tokens": list})
}

/// lex, parse, rebuild, re-parse; AST as normalised JSON.
pub fn front(request: &Value) -> Value
{
	let src = request["src"].as_str().unwrap_or("");
	let path = request["path"].as_str().unwrap_or("input.pn");
	let want_ast = request["ast"].as_bool().unwrap_or(true);
	let want_rebuild = request["rebuild"].as_bool().unwrap_or(true);
	let tokens = lexer::lex(src, path);
	let n_tokens = tokens.len();
	let declarations = parser::parse(tokens);
	let errors: Vec<Value> = match resolver::check_surface_level_errors(&declarations)
	{
		Ok(()) => Vec::new(),
		Err(errors) => errors.errors.iter().map(error_to_json).collect(),
	};
	let has_poison = ast_json::has_poison(&declarations);
	let mut out = json!({
		"status": "ok",
		"n_tokens": n_tokens,
		"errors": errors,
		"has_poison": has_poison,
		"has_builtin": ast_json::has_builtin(&declarations),
	});
	if want_ast
	{
		out["ast"] = ast_json::declarations(&declarations);
	}
	if want_rebuild
	{
		let indentation = rebuilder::Indentation {
			value: "\t",
			amount: 0,
		};
		match rebuilder::rebuild(&declarations, &indentation)
		{
			Ok(r1) =>
			{
				out["rebuilt_raw"] = json!(r1);
				let r1 = if request["strip_markers"].as_bool().unwrap_or(false)
				{
					strip_markers(&r1)
				}
				else
				{
					r1
				};
				let tokens2 = lexer::lex(&r1, path);
				let lex_errors2 = tokens2.iter().filter(|t| t.result.is_err()).count();
				let decl2 = parser::parse(tokens2);
				let errors2: Vec<Value> =
					match resolver::check_surface_level_errors(&decl2)
					{
						Ok(()) => Vec::new(),
						Err(errors) =>
						{
							errors.errors.iter().map(error_to_json).collect()
						}
					};
				out["rebuilt"] = json!(r1);
				out["re_lex_errors"] = json!(lex_errors2);
				out["re_errors"] = json!(errors2);
				out["re_has_poison"] = json!(ast_json::has_poison(&decl2));
				out["re_ast"] = ast_json::declarations(&decl2);
				match rebuilder::rebuild(&decl2, &indentation)
				{
					Ok(r2) =>
					{
						let r2 = if request["strip_markers"].as_bool().unwrap_or(false)
						{
							strip_markers(&r2)
						}
						else
						{
							r2
						};
						out["rebuilt2"] = json!(r2)
					}
					Err(e) => out["rebuild2_error"] = json!(e.to_string()),
				}
			}
			Err(e) => out["rebuild_error"] = json!(e.to_string()),
		}
	}
	out
}

/// Keyed normalisation for two known annotation forms of the rebuilder
/// (see known_findings.json, C20): `Name#?` for an unresolved structure name
/// and `struct#Name Name` / `wordN#Name Name` in structure declarations.
/// Exactly these forms are removed, nothing else.
fn strip_markers(text: &str) -> String
{
	let is_ident = |c: char| c.is_ascii_alphanumeric() || c == '_';
	let chars: Vec<char> = text.chars().collect();
	let mut out = String::with_capacity(text.len());
	let mut i = 0;
	while i < chars.len()
	{
		// string and char literals are copied verbatim
		if chars[i] == '"' || chars[i] == '\''
		{
			let quote = chars[i];
			out.push(chars[i]);
			i += 1;
			while i < chars.len() && chars[i] != quote && chars[i] != '\n'
			{
				if chars[i] == '\\' && i + 1 < chars.len()
				{
					out.push(chars[i]);
					i += 1;
				}
				out.push(chars[i]);
				i += 1;
			}
			if i < chars.len()
			{
				out.push(chars[i]);
				i += 1;
			}
			continue;
		}
		// Name#?
		if chars[i] == '#'
			&& i + 1 < chars.len()
			&& chars[i + 1] == '?'
			&& i > 0 && is_ident(chars[i - 1])
		{
			i += 2;
			continue;
		}
		// struct#Name Name  /  wordN#Name Name
		if chars[i] == '#' && i > 0
		{
			let before: String = out.chars().rev().take_while(|c| is_ident(*c)).collect::<String>().chars().rev().collect();
			let is_kw = before == "struct"
				|| (before.starts_with("word") && before[4..].chars().all(|c| c.is_ascii_digit()) && before.len() > 4);
			if is_kw
			{
				let mut j = i + 1;
				while j < chars.len() && is_ident(chars[j])
				{
					j += 1;
				}
				if j > i + 1 && j < chars.len() && chars[j] == ' '
				{
					let marked: String = chars[i + 1..j].iter().collect();
					let mut k = j + 1;
					while k < chars.len() && is_ident(chars[k])
					{
						k += 1;
					}
					let name: String = chars[j + 1..k].iter().collect();
					if name == marked
					{
						i = j; // drop `#Name`, keep ` Name`
						continue;
					}
				}
			}
		}
		out.push(chars[i]);
		i += 1;
	}
	out
}
