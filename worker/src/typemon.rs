//! Resolved-tree type monitor (C07/C08). Filled in below.

use penne::alpha::resolved;
use serde_json::{Value, json};

#[derive(Default)]
pub struct Stats
{
	pub nodes: u64,
}

impl Stats
{
	pub fn to_json(&self) -> Value
	{
		json!({"nodes": self.nodes})
	}
}

pub fn check(
	_decls: &[resolved::Declaration],
	_reports: &mut Vec<Value>,
	_stats: &mut Stats,
)
{
}
