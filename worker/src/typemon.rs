//! Resolved-tree type monitor (C07): walks `resolved::Declaration`s of an
//! accepted module and asserts the "no implicit conversion" rules at every
//! node. It shares no code with the typer/resolver: types are compared
//! structurally (structure names by name), operator classes come from the
//! property text.

use std::collections::HashMap;

use penne::alpha::resolved::*;

use serde_json::{Value, json};

#[derive(Default)]
pub struct Stats
{
	counts: HashMap<&'static str, u64>,
	recorded: HashMap<String, u64>,
}

impl Stats
{
	fn hit(&mut self, k: &'static str)
	{
		*self.counts.entry(k).or_insert(0) += 1;
	}

	fn record(&mut self, k: String)
	{
		*self.recorded.entry(k).or_insert(0) += 1;
	}

	pub fn to_json(&self) -> Value
	{
		json!({"checked": self.counts, "recorded": self.recorded})
	}
}

/// Structural rendering of a type; two types are "identical" iff equal strings.
fn ty(t: &ValueType) -> String
{
	use penne::alpha::value_type::ValueType as VT;
	match t
	{
		VT::Void => "void".into(),
		VT::Int8 => "i8".into(),
		VT::Int16 => "i16".into(),
		VT::Int32 => "i32".into(),
		VT::Int64 => "i64".into(),
		VT::Int128 => "i128".into(),
		VT::Uint8 => "u8".into(),
		VT::Uint16 => "u16".into(),
		VT::Uint32 => "u32".into(),
		VT::Uint64 => "u64".into(),
		VT::Uint128 => "u128".into(),
		VT::Usize => "usize".into(),
		VT::Char8 => "char8".into(),
		VT::Bool => "bool".into(),
		VT::Array {
			element_type,
			length,
		} => format!("[{}]{}", length, ty(element_type)),
		VT::ArrayWithNamedLength {
			element_type,
			named_length,
		} => format!("[{}]{}", named_length.name, ty(element_type)),
		VT::Slice { element_type } => format!("[:]{}", ty(element_type)),
		VT::SlicePointer { element_type } =>
		{
			format!("&[:]{}", ty(element_type))
		}
		VT::EndlessArray { element_type } =>
		{
			format!("[..]{}", ty(element_type))
		}
		VT::Arraylike { element_type } => format!("[]{}", ty(element_type)),
		VT::Struct { identifier } => format!("struct {}", identifier.name),
		VT::Word {
			identifier,
			size_in_bytes,
		} => format!("word{} {}", size_in_bytes * 8, identifier.name),
		VT::UnresolvedStructOrWord { identifier } => format!(
			"unresolved {}",
			identifier.as_ref().map(|i| i.name.as_str()).unwrap_or("?")
		),
		VT::Pointer { deref_type } => format!("&{}", ty(deref_type)),
		VT::View { deref_type } => format!("({})", ty(deref_type)),
	}
}

/// The "shape" a documented coercion may not change: wrappers (pointer,
/// view) are peeled, every array form becomes `arr of <element>`.
fn coercion_core(t: &ValueType) -> String
{
	use penne::alpha::value_type::ValueType as VT;
	match t
	{
		VT::Pointer { deref_type } => coercion_core(deref_type),
		VT::View { deref_type } => coercion_core(deref_type),
		VT::Array { element_type, .. }
		| VT::ArrayWithNamedLength { element_type, .. }
		| VT::Slice { element_type }
		| VT::SlicePointer { element_type }
		| VT::EndlessArray { element_type }
		| VT::Arraylike { element_type } =>
		{
			format!("arr {}", coercion_core(element_type))
		}
		other => ty(other),
	}
}

fn is_arraylike_or_struct(t: &ValueType) -> bool
{
	use penne::alpha::value_type::ValueType as VT;
	match t
	{
		VT::Pointer { deref_type } => is_arraylike_or_struct(deref_type),
		VT::View { deref_type } => is_arraylike_or_struct(deref_type),
		VT::Array { .. }
		| VT::ArrayWithNamedLength { .. }
		| VT::Slice { .. }
		| VT::SlicePointer { .. }
		| VT::EndlessArray { .. }
		| VT::Arraylike { .. }
		| VT::Struct { .. } => true,
		_ => false,
	}
}

fn is_int(t: &ValueType) -> bool
{
	t.is_integral()
}

fn is_unsigned_fixed(t: &ValueType) -> bool
{
	t.is_bitfield()
}

fn is_pointerish(t: &ValueType) -> bool
{
	use penne::alpha::value_type::ValueType as VT;
	matches!(t, VT::Pointer { .. } | VT::SlicePointer { .. } | VT::View { .. })
}

#[derive(Clone, Copy, PartialEq)]
enum VarKind
{
	Constant,
	Parameter,
	Local,
}

struct Ctx<'a>
{
	reports: &'a mut Vec<Value>,
	stats: &'a mut Stats,
	kinds: HashMap<u32, VarKind>,
	vars: HashMap<u32, ValueType>,
	funcs: HashMap<u32, (Vec<ValueType>, Option<ValueType>)>,
	structs: HashMap<String, Vec<ValueType>>,
	function: String,
}

impl<'a> Ctx<'a>
{
	fn report(&mut self, rule: &str, detail: String)
	{
		if self.reports.len() < 20
		{
			self.reports.push(json!({
				"rule": rule,
				"function": self.function,
				"detail": detail,
			}));
		}
	}

	fn same(&mut self, rule: &'static str, a: &ValueType, b: &ValueType, what: &str)
	{
		self.stats.hit(rule);
		if ty(a) != ty(b)
		{
			self.report(rule, format!("{}: `{}` vs `{}`", what, ty(a), ty(b)));
		}
	}
}

pub fn check(
	decls: &[Declaration],
	reports: &mut Vec<Value>,
	stats: &mut Stats,
)
{
	let mut ctx = Ctx {
		reports,
		stats,
		kinds: HashMap::new(),
		vars: HashMap::new(),
		funcs: HashMap::new(),
		structs: HashMap::new(),
		function: String::new(),
	};
	for d in decls
	{
		match d
		{
			Declaration::Constant {
				name, value_type, ..
			} =>
			{
				ctx.vars.insert(name.resolution_id, value_type.clone());
				ctx.kinds.insert(name.resolution_id, VarKind::Constant);
			}
			Declaration::Function {
				name,
				parameters,
				return_type,
				..
			}
			| Declaration::FunctionHead {
				name,
				parameters,
				return_type,
				..
			} =>
			{
				let params =
					parameters.iter().map(|p| p.value_type.clone()).collect();
				ctx.funcs
					.insert(name.resolution_id, (params, return_type.clone()));
			}
			Declaration::Structure { name, members, .. } =>
			{
				ctx.structs.insert(
					name.name.clone(),
					members.iter().map(|m| m.value_type.clone()).collect(),
				);
			}
		}
	}
	for d in decls
	{
		match d
		{
			Declaration::Constant {
				name,
				value,
				value_type,
				..
			} =>
			{
				ctx.function = format!("const {}", name.name);
				expr(&mut ctx, value);
				let vt = value.value_type();
				ctx.same("constant_initialiser", value_type, &vt, &name.name);
			}
			Declaration::Function {
				name,
				parameters,
				body,
				return_type,
				..
			} =>
			{
				ctx.function = name.name.clone();
				for p in parameters
				{
					ctx.vars.insert(p.name.resolution_id, p.value_type.clone());
					ctx.kinds.insert(p.name.resolution_id, VarKind::Parameter);
				}
				for s in &body.statements
				{
					stmt(&mut ctx, s);
				}
				match (&body.return_value, return_type)
				{
					(Some(v), Some(rt)) =>
					{
						expr(&mut ctx, v);
						let vt = v.value_type();
						ctx.same("return_value", rt, &vt, "return");
					}
					(Some(v), None) =>
					{
						expr(&mut ctx, v);
						ctx.stats.hit("return_value");
						ctx.report(
							"return_value",
							"value returned from void function".into(),
						);
					}
					(None, Some(rt)) =>
					{
						ctx.stats.hit("return_value");
						if !rt.is_void()
						{
							ctx.report(
								"return_value",
								format!("no value for return type `{}`", ty(rt)),
							);
						}
					}
					(None, None) => (),
				}
			}
			_ => (),
		}
	}
}

fn stmt(ctx: &mut Ctx, s: &Statement)
{
	match s
	{
		Statement::Declaration {
			name,
			value,
			value_type,
		} =>
		{
			ctx.vars.insert(name.resolution_id, value_type.clone());
			ctx.kinds.insert(name.resolution_id, VarKind::Local);
			if let Some(v) = value
			{
				expr(ctx, v);
				let vt = v.value_type();
				ctx.same("initialisation", value_type, &vt, &name.name);
				whole_copy(ctx, v, "initialisation");
			}
		}
		Statement::Assignment { reference, value } =>
		{
			expr(ctx, value);
			reference_indices(ctx, reference);
			whole_copy(ctx, value, "assignment");
			write_target(ctx, reference);
			match reference_type(ctx, reference)
			{
				Some(target) =>
				{
					let vt = value.value_type();
					ctx.same("assignment", &target, &vt, &reference.base.name);
				}
				None =>
				{
					ctx.stats.hit("assignment_target_unknown");
				}
			}
		}
		Statement::EvaluateAndDiscard { value } => expr(ctx, value),
		Statement::Loop => (),
		Statement::Goto { .. } => (),
		Statement::Label { .. } => (),
		Statement::If {
			condition,
			then_branch,
			else_branch,
		} =>
		{
			comparison(ctx, condition);
			stmt(ctx, then_branch);
			if let Some(e) = else_branch
			{
				stmt(ctx, e);
			}
		}
		Statement::Block(b) =>
		{
			for s in &b.statements
			{
				stmt(ctx, s);
			}
		}
	}
}

fn comparison(ctx: &mut Ctx, c: &Comparison)
{
	expr(ctx, &c.left);
	expr(ctx, &c.right);
	let l = c.left.value_type();
	let r = c.right.value_type();
	ctx.same("comparison_operands", &l, &r, &format!("{:?}", c.op));
	ctx.same("comparison_type", &c.compared_type, &l, &format!("{:?}", c.op));
	let ordering = !matches!(c.op, ComparisonOp::Equals | ComparisonOp::DoesNotEqual);
	ctx.stats.hit("comparison_class");
	if ordering && is_pointerish(&c.compared_type)
	{
		ctx.report(
			"comparison_class",
			format!("ordering {:?} on `{}`", c.op, ty(&c.compared_type)),
		);
	}
	if is_arraylike_or_struct(&c.compared_type) && !is_pointerish(&c.compared_type)
	{
		ctx.report(
			"comparison_class",
			format!("comparison {:?} on `{}`", c.op, ty(&c.compared_type)),
		);
	}
}

fn reference_indices(ctx: &mut Ctx, r: &Reference)
{
	for s in &r.steps
	{
		if let ReferenceStep::Element { argument, .. } = s
		{
			expr(ctx, argument);
			ctx.stats.hit("index_type");
			let t = argument.value_type();
			if ty(&t) != "usize"
			{
				ctx.report("index_type", format!("index of type `{}`", ty(&t)));
			}
		}
	}
}

/// Type of the storage a reference denotes, computed from declared types.
fn reference_type(ctx: &mut Ctx, r: &Reference) -> Option<ValueType>
{
	use penne::alpha::value_type::ValueType as VT;
	let mut t = ctx.vars.get(&r.base.resolution_id)?.clone();
	for s in &r.steps
	{
		t = match s
		{
			ReferenceStep::Element { .. } => t.get_element_type()?,
			ReferenceStep::Member { offset } => match &t
			{
				VT::Struct { identifier } | VT::Word { identifier, .. } =>
				{
					ctx.structs.get(&identifier.name)?.get(*offset)?.clone()
				}
				_ => return None,
			},
			ReferenceStep::Autodeslice { offset } =>
			{
				if *offset == 1
				{
					VT::Usize
				}
				else
				{
					t
				}
			}
			ReferenceStep::Autoderef => t.get_pointee_type()?,
			ReferenceStep::Autoview => t.get_viewee_type()?,
		};
	}
	if r.take_address
	{
		t = VT::Pointer {
			deref_type: Box::new(t),
		};
	}
	Some(t)
}

fn expr(ctx: &mut Ctx, e: &Expression)
{
	match e
	{
		Expression::Binary {
			op,
			left,
			right,
			value_type,
		} =>
		{
			expr(ctx, left);
			expr(ctx, right);
			if *op == BinaryOp::AdvancePointer
			{
				ctx.stats.hit("pointer_advance");
				return;
			}
			let l = left.value_type();
			let r = right.value_type();
			ctx.same("binary_operands", &l, &r, &format!("{:?}", op));
			ctx.same("binary_result", value_type, &l, &format!("{:?}", op));
			ctx.stats.hit("binary_class");
			let ok = match op
			{
				BinaryOp::Add
				| BinaryOp::Subtract
				| BinaryOp::Multiply
				| BinaryOp::Divide
				| BinaryOp::Modulo =>
				{
					if ty(&l) == "char8"
					{
						ctx.stats.record(format!("arithmetic on char8 ({:?})", op));
						true
					}
					else
					{
						is_int(&l)
					}
				}
				BinaryOp::BitwiseAnd
				| BinaryOp::BitwiseOr
				| BinaryOp::BitwiseXor
				| BinaryOp::ShiftLeft
				| BinaryOp::ShiftRight => is_unsigned_fixed(&l),
				BinaryOp::AdvancePointer => true,
			};
			if !ok
			{
				ctx.report(
					"binary_class",
					format!("{:?} applied to `{}`", op, ty(&l)),
				);
			}
		}
		Expression::Unary {
			op,
			expression,
			value_type,
		} =>
		{
			expr(ctx, expression);
			let t = expression.value_type();
			ctx.same("unary_result", value_type, &t, &format!("{:?}", op));
			ctx.stats.hit("unary_class");
			let ok = match op
			{
				UnaryOp::Negative => t.is_signed(),
				UnaryOp::BitwiseComplement =>
				{
					if ty(&t) == "bool"
					{
						ctx.stats.record("complement on bool".into());
						true
					}
					else
					{
						is_unsigned_fixed(&t)
					}
				}
			};
			if !ok
			{
				ctx.report(
					"unary_class",
					format!("{:?} applied to `{}`", op, ty(&t)),
				);
			}
		}
		Expression::SignedIntegerLiteral { value_type, .. }
		| Expression::BitIntegerLiteral { value_type, .. } =>
		{
			ctx.stats.hit("literal_type");
			let t = ty(value_type);
			// booleans are carried as bit literals of type bool in the resolved tree
			let ok = is_int(value_type)
				|| t == "char8" || t == "bool"
				|| is_pointerish(value_type);
			if !ok
			{
				ctx.report("literal_type", format!("integer literal typed `{}`", t));
			}
		}
		Expression::StringLiteral { .. } => (),
		Expression::ArrayLiteral {
			elements,
			element_type,
		} =>
		{
			for x in elements
			{
				expr(ctx, x);
				let t = x.value_type();
				ctx.same("array_element", element_type, &t, "array literal");
				whole_copy(ctx, x, "array literal element");
			}
		}
		Expression::Structural {
			members,
			structural_type,
		} =>
		{
			use penne::alpha::value_type::ValueType as VT;
			let declared: Option<Vec<ValueType>> = match structural_type
			{
				VT::Struct { identifier } | VT::Word { identifier, .. } =>
				{
					ctx.structs.get(&identifier.name).cloned()
				}
				_ => None,
			};
			for m in members
			{
				expr(ctx, &m.expression);
				whole_copy(ctx, &m.expression, "member initialiser");
				if let Some(d) = declared.as_ref().and_then(|d| d.get(m.offset))
				{
					let t = m.expression.value_type();
					let d = d.clone();
					ctx.same("member_initialiser", &d, &t, &m.name.name);
				}
			}
		}
		Expression::Parenthesized { inner } => expr(ctx, inner),
		Expression::Deref {
			reference,
			deref_type,
		} =>
		{
			reference_indices(ctx, reference);
			if reference.take_address
			{
				address_of(ctx, reference);
			}
			match reference_type(ctx, reference)
			{
				Some(t) =>
				{
					ctx.same("deref_type", deref_type, &t, &reference.base.name);
				}
				None => ctx.stats.hit("deref_type_unknown"),
			}
		}
		Expression::Autocoerce {
			expression,
			coerced_type,
		} =>
		{
			expr(ctx, expression);
			let from = expression.value_type();
			ctx.stats.hit("autocoerce");
			let (cf, ct) = (coercion_core(&from), coercion_core(coerced_type));
			// strings: arrays of char8 are handed to `[]u8` parameters (and back)
			// throughout the documentation's FFI examples; recorded, not judged
			let alias = cf.replace("char8", "u8") == ct.replace("char8", "u8");
			if alias && cf != ct
			{
				ctx.stats.record("char8/u8 array alias".into());
			}
			let ok = alias && is_arraylike_or_struct(&from);
			ctx.stats.record(format!(
				"coerce {}",
				if cf.starts_with("arr") { "array" } else { "struct" }
			));
			if !ok
			{
				ctx.report(
					"autocoerce",
					format!(
						"implicit conversion `{}` -> `{}`",
						ty(&from),
						ty(coerced_type)
					),
				);
			}
		}
		Expression::BitCast { expression, .. } =>
		{
			expr(ctx, expression);
			ctx.stats.hit("bitcast");
		}
		Expression::PrimitiveCast {
			expression,
			expression_type,
			coerced_type,
		} =>
		{
			expr(ctx, expression);
			let t = expression.value_type();
			ctx.same("cast_source", expression_type, &t, "as");
			ctx.stats.hit("cast_pair");
			let (f, c) = (ty(expression_type), ty(coerced_type));
			let ok = (is_int(expression_type) && is_int(coerced_type) && f != c)
				|| (f == "u8" && c == "char8")
				|| (f == "char8" && c == "u8")
				|| (f == "bool" && is_int(coerced_type));
			if !ok
			{
				ctx.report("cast_pair", format!("`{}` as `{}`", f, c));
			}
		}
		Expression::LengthOfArray { reference } =>
		{
			reference_indices(ctx, reference);
		}
		Expression::SizeOf { .. } => (),
		Expression::FunctionCall {
			name,
			arguments,
			return_type,
		} =>
		{
			for a in arguments
			{
				expr(ctx, a);
			}
			if let Some((params, ret)) = ctx.funcs.get(&name.resolution_id).cloned()
			{
				ctx.stats.hit("call_arity");
				if params.len() != arguments.len()
				{
					ctx.report(
						"call_arity",
						format!(
							"{}: {} arguments for {} parameters",
							name.name,
							arguments.len(),
							params.len()
						),
					);
				}
				for (p, a) in params.iter().zip(arguments.iter())
				{
					let t = a.value_type();
					ctx.same("call_argument", p, &t, &name.name);
				}
				let rt = ret.unwrap_or(ValueType::Void);
				// a call used as a statement carries `void` (result discarded)
				if !return_type.is_void()
				{
					ctx.same("call_return", &rt, return_type, &name.name);
				}
			}
			else
			{
				ctx.stats.hit("call_unknown_function");
			}
		}
		Expression::InlineBlock { statements, value } =>
		{
			// compiler-generated (builtins): walked but not judged as user code
			for s in statements
			{
				stmt(ctx, s);
			}
			expr(ctx, value);
		}
		Expression::Builtin(_) => (),
	}
}

/// C08: whole arrays, array views and (non-word) structures cannot be copied by assignment,
/// initialisation, or as an element / member of a literal (function arguments are views, not copies).
fn whole_copy(ctx: &mut Ctx, value: &Expression, context: &str)
{
	use penne::alpha::value_type::ValueType as VT;
	ctx.stats.hit("whole_copy");
	let is_stored_object = match value
	{
		Expression::Deref { reference, .. } => !reference.take_address,
		Expression::Parenthesized { inner } => matches!(
			**inner,
			Expression::Deref { .. }
		),
		_ => false,
	};
	if !is_stored_object
	{
		return;
	}
	match value.value_type()
	{
		VT::Array { .. }
		| VT::ArrayWithNamedLength { .. }
		| VT::Slice { .. }
		| VT::EndlessArray { .. }
		| VT::Arraylike { .. }
		| VT::Struct { .. } =>
		{
			let t = ty(&value.value_type());
			ctx.report(
				"whole_copy",
				format!("{} copies a whole `{}`", context, kind_of(&t)),
			);
		}
		_ => (),
	}
}

fn kind_of(t: &str) -> &'static str
{
	if t.starts_with("struct")
	{
		"structure"
	}
	else if t.starts_with("[:]")
	{
		"array view"
	}
	else
	{
		"array"
	}
}

/// C08: an assignment may only write to a local variable, or through a pointer;
/// never to a constant, a by-value parameter or through a view.
fn write_target(ctx: &mut Ctx, r: &Reference)
{
	ctx.stats.hit("write_target");
	let kind = ctx.kinds.get(&r.base.resolution_id).copied();
	let through_pointer = r
		.steps
		.iter()
		.any(|s| matches!(s, ReferenceStep::Autoderef))
		|| r.steps.iter().any(
			|s| matches!(s, ReferenceStep::Autodeslice { offset } if *offset == 0),
		) && ctx
			.vars
			.get(&r.base.resolution_id)
			.map(|t| t.is_slice_pointer())
			.unwrap_or(false);
	let through_view = r.steps.iter().any(|s| matches!(s, ReferenceStep::Autoview));
	if through_view
	{
		ctx.report("write_target", "assignment writes through a view".into());
		return;
	}
	match kind
	{
		Some(VarKind::Constant) if !through_pointer =>
		{
			ctx.report("write_target", "assignment writes to a constant".into());
		}
		Some(VarKind::Parameter) if !through_pointer && !r.take_address =>
		{
			let is_view_slice = ctx
				.vars
				.get(&r.base.resolution_id)
				.map(|t| matches!(t, penne::alpha::value_type::ValueType::Slice { .. }))
				.unwrap_or(false);
			ctx.report(
				"write_target",
				if is_view_slice
				{
					"assignment writes through an array view parameter".into()
				}
				else
				{
					"assignment writes to a by-value parameter".into()
				},
			);
		}
		_ => (),
	}
}

/// C08: an address may only be taken of a local variable or of something reached through a pointer;
/// never of a constant, a by-value parameter or something inside a view.
fn address_of(ctx: &mut Ctx, r: &Reference)
{
	use penne::alpha::value_type::ValueType as VT;
	ctx.stats.hit("address_of");
	let kind = ctx.kinds.get(&r.base.resolution_id).copied();
	let base_type = ctx.vars.get(&r.base.resolution_id).cloned();
	let through_pointer = r.steps.iter().any(|s| matches!(s, ReferenceStep::Autoderef))
		|| matches!(base_type, Some(VT::Pointer { .. }) | Some(VT::SlicePointer { .. }));
	if r.steps.iter().any(|s| matches!(s, ReferenceStep::Autoview))
		|| matches!(base_type, Some(VT::View { .. }))
	{
		ctx.report("address_of", "address taken of something inside a view".into());
		return;
	}
	match kind
	{
		Some(VarKind::Constant) if !through_pointer =>
		{
			ctx.report("address_of", "address taken of a constant".into());
		}
		Some(VarKind::Parameter) if !through_pointer =>
		{
			ctx.report(
				"address_of",
				format!(
					"address taken of a parameter that is not a pointer (`{}`)",
					base_type.as_ref().map(ty).unwrap_or_default()
				),
			);
		}
		_ => (),
	}
}
