//! First-generation AST (as produced by the parser) → JSON without
//! locations or resolution ids. Further normalisation happens in Python.

use penne::alpha::common::*;

use serde_json::{Value, json};

pub fn has_poison(decls: &[Declaration]) -> bool
{
	let v = declarations(decls);
	contains_tag(&v, "poison")
}

pub fn has_builtin(decls: &[Declaration]) -> bool
{
	let v = declarations(decls);
	contains_key_true(&v, "builtin")
}

fn contains_tag(v: &Value, tag: &str) -> bool
{
	match v
	{
		Value::Object(m) =>
		{
			if m.get("t").and_then(|x| x.as_str()) == Some(tag)
			{
				return true;
			}
			m.values().any(|x| contains_tag(x, tag))
		}
		Value::Array(a) => a.iter().any(|x| contains_tag(x, tag)),
		_ => false,
	}
}

fn contains_key_true(v: &Value, key: &str) -> bool
{
	match v
	{
		Value::Object(m) =>
		{
			if m.get(key).map(|x| !x.is_null()).unwrap_or(false)
			{
				return true;
			}
			m.values().any(|x| contains_key_true(x, key))
		}
		Value::Array(a) => a.iter().any(|x| contains_key_true(x, key)),
		_ => false,
	}
}

pub fn declarations(decls: &[Declaration]) -> Value
{
	Value::Array(decls.iter().map(declaration).collect())
}

fn flags(flags: &enumset::EnumSet<DeclarationFlag>) -> Value
{
	let mut v: Vec<&'static str> = Vec::new();
	for f in flags.iter()
	{
		v.push(match f
		{
			DeclarationFlag::Public => "Public",
			DeclarationFlag::External => "External",
			DeclarationFlag::Main => "Main",
			DeclarationFlag::Forward => "Forward",
			DeclarationFlag::OpaqueStruct => "OpaqueStruct",
		});
	}
	json!(v)
}

fn ptype(t: &Poisonable<ValueType>) -> Value
{
	match t
	{
		Ok(t) => vtype(t),
		Err(_) => json!({"t": "poison"}),
	}
}

fn optype(t: &Option<Poisonable<ValueType>>) -> Value
{
	match t
	{
		Some(t) => ptype(t),
		None => Value::Null,
	}
}

pub fn vtype(t: &ValueType) -> Value
{
	use penne::alpha::value_type::ValueType as VT;
	match t
	{
		VT::Void => json!({"t": "void"}),
		VT::Int8 => json!({"t": "i8"}),
		VT::Int16 => json!({"t": "i16"}),
		VT::Int32 => json!({"t": "i32"}),
		VT::Int64 => json!({"t": "i64"}),
		VT::Int128 => json!({"t": "i128"}),
		VT::Uint8 => json!({"t": "u8"}),
		VT::Uint16 => json!({"t": "u16"}),
		VT::Uint32 => json!({"t": "u32"}),
		VT::Uint64 => json!({"t": "u64"}),
		VT::Uint128 => json!({"t": "u128"}),
		VT::Usize => json!({"t": "usize"}),
		VT::Char8 => json!({"t": "char8"}),
		VT::Bool => json!({"t": "bool"}),
		VT::Array {
			element_type,
			length,
		} => json!({"t": "array", "len": length.to_string(), "of": vtype(element_type)}),
		VT::ArrayWithNamedLength {
			element_type,
			named_length,
		} => json!({"t": "arrayn", "name": named_length.name, "of": vtype(element_type)}),
		VT::Slice { element_type } =>
		{
			json!({"t": "slice", "of": vtype(element_type)})
		}
		VT::SlicePointer { element_type } =>
		{
			json!({"t": "sliceptr", "of": vtype(element_type)})
		}
		VT::EndlessArray { element_type } =>
		{
			json!({"t": "endless", "of": vtype(element_type)})
		}
		VT::Arraylike { element_type } =>
		{
			json!({"t": "arraylike", "of": vtype(element_type)})
		}
		VT::Struct { identifier } =>
		{
			json!({"t": "struct", "name": identifier.name})
		}
		VT::Word {
			identifier,
			size_in_bytes,
		} => json!({"t": "word", "name": identifier.name, "size": size_in_bytes}),
		VT::UnresolvedStructOrWord { identifier } => json!({
			"t": "named",
			"name": identifier.as_ref().map(|i| i.name.clone()),
		}),
		VT::Pointer { deref_type } =>
		{
			json!({"t": "ptr", "of": vtype(deref_type)})
		}
		VT::View { deref_type } =>
		{
			json!({"t": "view", "of": vtype(deref_type)})
		}
	}
}

fn pident(i: &Poisonable<Identifier>) -> Value
{
	match i
	{
		Ok(i) => json!(i.name),
		Err(_) => json!({"t": "poison"}),
	}
}

fn declaration(d: &Declaration) -> Value
{
	match d
	{
		Declaration::Constant {
			name,
			value,
			value_type,
			flags: f,
			..
		} => json!({
			"t": "const",
			"name": name.name,
			"flags": flags(f),
			"type": ptype(value_type),
			"value": expression(value),
		}),
		Declaration::Function {
			name,
			parameters,
			body,
			return_type,
			flags: f,
			..
		} => json!({
			"t": "fn",
			"name": name.name,
			"flags": flags(f),
			"params": parameters.iter().map(|p| json!({
				"name": pident(&p.name), "type": ptype(&p.value_type)
			})).collect::<Vec<_>>(),
			"ret": ptype(return_type),
			"body": match body {
				Ok(body) => json!({
					"stmts": body.statements.iter().map(statement).collect::<Vec<_>>(),
					"ret": body.return_value.as_ref().map(expression),
				}),
				Err(_) => json!({"t": "poison"}),
			},
		}),
		Declaration::FunctionHead {
			name,
			parameters,
			return_type,
			flags: f,
			..
		} => json!({
			"t": "fn",
			"name": name.name,
			"flags": flags(f),
			"params": parameters.iter().map(|p| json!({
				"name": pident(&p.name), "type": ptype(&p.value_type)
			})).collect::<Vec<_>>(),
			"ret": ptype(return_type),
			"body": Value::Null,
		}),
		Declaration::Structure {
			name,
			members,
			structural_type,
			flags: f,
			..
		} => json!({
			"t": "struct",
			"name": name.name,
			"flags": flags(f),
			"stype": ptype(structural_type),
			"members": members.iter().map(|m| json!({
				"name": pident(&m.name), "type": ptype(&m.value_type)
			})).collect::<Vec<_>>(),
		}),
		Declaration::Import { filename, .. } =>
		{
			json!({"t": "import", "file": filename})
		}
		Declaration::Poison(_) => json!({"t": "poison"}),
	}
}

fn statement(s: &Statement) -> Value
{
	match s
	{
		Statement::Declaration {
			name,
			value,
			value_type,
			..
		} => json!({
			"t": "var",
			"name": name.name,
			"type": optype(value_type),
			"value": value.as_ref().map(expression),
		}),
		Statement::Assignment {
			reference: r,
			value,
			..
		} => json!({
			"t": "assign",
			"ref": reference(r),
			"value": expression(value),
		}),
		Statement::MethodCall {
			name,
			builtin,
			arguments,
		} => json!({
			"t": "call",
			"name": name.name,
			"builtin": builtin.map(|b| format!("{:?}", b)),
			"args": arguments.iter().map(expression).collect::<Vec<_>>(),
		}),
		Statement::Loop { .. } => json!({"t": "loop"}),
		Statement::Goto { label, .. } =>
		{
			json!({"t": "goto", "label": label.name})
		}
		Statement::Label { label, .. } =>
		{
			json!({"t": "label", "label": label.name})
		}
		Statement::If {
			condition,
			then_branch,
			else_branch,
			..
		} => json!({
			"t": "if",
			"cond": {
				"op": format!("{:?}", condition.op),
				"left": expression(&condition.left),
				"right": expression(&condition.right),
			},
			"then": statement(then_branch),
			"else": else_branch.as_ref().map(|e| statement(&e.branch)),
		}),
		Statement::Block(block) => json!({
			"t": "block",
			"stmts": block.statements.iter().map(statement).collect::<Vec<_>>(),
		}),
		Statement::Poison(_) => json!({"t": "poison"}),
	}
}

fn reference(r: &Reference) -> Value
{
	json!({
		"base": pident(&r.base),
		"addr": r.address_depth,
		"steps": r.steps.iter().map(|s| match s {
			ReferenceStep::Element { argument, .. } =>
				json!({"t": "elem", "arg": expression(argument)}),
			ReferenceStep::Member { member, .. } =>
				json!({"t": "member", "name": member.name}),
			ReferenceStep::Autodeslice { .. } => json!({"t": "autodeslice"}),
			ReferenceStep::Autoderef => json!({"t": "autoderef"}),
			ReferenceStep::Autoview => json!({"t": "autoview"}),
		}).collect::<Vec<_>>(),
	})
}

fn expression(e: &Expression) -> Value
{
	match e
	{
		Expression::Binary {
			op, left, right, ..
		} => json!({
			"t": "binary",
			"op": format!("{:?}", op),
			"left": expression(left),
			"right": expression(right),
		}),
		Expression::Unary { op, expression: x, .. } => json!({
			"t": "unary",
			"op": format!("{:?}", op),
			"of": expression(x),
		}),
		Expression::BooleanLiteral { value, .. } =>
		{
			json!({"t": "bool", "value": value})
		}
		Expression::SignedIntegerLiteral {
			value, value_type, ..
		} => json!({
			"t": "int",
			"value": value.to_string(),
			"type": optype(value_type),
		}),
		Expression::BitIntegerLiteral {
			value, value_type, ..
		} => json!({
			"t": "bits",
			"value": value.to_string(),
			"type": optype(value_type),
		}),
		Expression::StringLiteral { bytes, .. } =>
		{
			json!({"t": "string", "hex": crate::hex(bytes)})
		}
		Expression::ArrayLiteral { array, .. } => json!({
			"t": "arraylit",
			"elems": array.elements.iter().map(expression).collect::<Vec<_>>(),
		}),
		Expression::Structural {
			members,
			structural_type,
			..
		} => json!({
			"t": "structural",
			"stype": ptype(structural_type),
			"members": members.iter().map(|m| json!({
				"name": pident(&m.name),
				"value": expression(&m.expression),
			})).collect::<Vec<_>>(),
		}),
		Expression::Parenthesized { inner, .. } =>
		{
			json!({"t": "paren", "of": expression(inner)})
		}
		Expression::Deref { reference: r, .. } =>
		{
			json!({"t": "deref", "ref": reference(r)})
		}
		Expression::Autocoerce { expression: x, .. } =>
		{
			json!({"t": "autocoerce", "of": expression(x)})
		}
		Expression::BitCast {
			expression: x,
			coerced_type,
			..
		} => json!({
			"t": "bitcast",
			"of": expression(x),
			"type": optype(coerced_type),
		}),
		Expression::TypeCast {
			expression: x,
			coerced_type,
			..
		} => json!({
			"t": "typecast",
			"of": expression(x),
			"type": vtype(coerced_type),
		}),
		Expression::LengthOfArray { reference: r, .. } =>
		{
			json!({"t": "lengthof", "ref": reference(r)})
		}
		Expression::SizeOf { queried_type, .. } =>
		{
			json!({"t": "sizeof", "type": vtype(queried_type)})
		}
		Expression::FunctionCall {
			name,
			builtin,
			arguments,
			..
		} => json!({
			"t": "fcall",
			"name": name.name,
			"builtin": builtin.map(|b| format!("{:?}", b)),
			"args": arguments.iter().map(expression).collect::<Vec<_>>(),
		}),
		Expression::Poison(_) => json!({"t": "poison"}),
	}
}
