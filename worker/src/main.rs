//! pv-worker: the only code of the verification framework that calls penne.
//!
//! Reads one JSON request per line on stdin, writes one JSON answer per line
//! on stdout. Observation happens at penne's public API boundary only.
//! A Rust panic is caught and reported as `{"status":"panic",...}`; anything
//! that kills the process (LLVM abort, stack overflow, signal) is classified
//! by the driver from the exit status and stderr.

use std::io::{BufRead, Write};
use std::panic::AssertUnwindSafe;

use serde_json::{Value, json};

mod alpha_ops;
mod ast_json;
mod delta_ops;
mod reflex;
mod typemon;

thread_local! {
	static LAST_PANIC: std::cell::RefCell<Option<(String, String)>> =
		std::cell::RefCell::new(None);
}

fn main()
{
	std::panic::set_hook(Box::new(|info| {
		let site = info
			.location()
			.map(|l| format!("{}:{}", l.file(), l.line()))
			.unwrap_or_else(|| "?".to_string());
		let msg = if let Some(s) = info.payload().downcast_ref::<&str>()
		{
			s.to_string()
		}
		else if let Some(s) = info.payload().downcast_ref::<String>()
		{
			s.clone()
		}
		else
		{
			"?".to_string()
		};
		let first: String =
			msg.lines().next().unwrap_or("").chars().take(300).collect();
		eprintln!("PV-PANIC {} {}", site, first);
		LAST_PANIC.with(|p| *p.borrow_mut() = Some((site, first)));
	}));

	let args: Vec<String> = std::env::args().collect();
	if args.len() >= 3 && args[1] == "--one"
	{
		// Single request from a file (used under valgrind / for replays).
		let text = std::fs::read_to_string(&args[2]).expect("request file");
		for line in text.lines().filter(|l| !l.trim().is_empty())
		{
			let answer = handle_line(line);
			println!("{}", answer);
		}
		return;
	}

	let stdin = std::io::stdin();
	let stdout = std::io::stdout();
	let mut line = String::new();
	loop
	{
		line.clear();
		match stdin.lock().read_line(&mut line)
		{
			Ok(0) => break,
			Ok(_) => (),
			Err(_) => break,
		}
		if line.trim().is_empty()
		{
			continue;
		}
		let answer = handle_line(&line);
		let mut out = stdout.lock();
		let _ = writeln!(out, "{}", answer);
		let _ = out.flush();
	}
}

fn handle_line(line: &str) -> String
{
	let request: Value = match serde_json::from_str(line)
	{
		Ok(v) => v,
		Err(e) =>
		{
			return json!({"status": "bad_request", "error": e.to_string()})
				.to_string();
		}
	};
	LAST_PANIC.with(|p| *p.borrow_mut() = None);
	let result =
		std::panic::catch_unwind(AssertUnwindSafe(|| dispatch(&request)));
	let answer = match result
	{
		Ok(v) => v,
		Err(_) =>
		{
			let (site, msg) = LAST_PANIC
				.with(|p| p.borrow_mut().take())
				.unwrap_or(("?".to_string(), "?".to_string()));
			json!({"status": "panic", "site": site, "msg": msg})
		}
	};
	answer.to_string()
}

fn dispatch(request: &Value) -> Value
{
	match request["op"].as_str().unwrap_or("")
	{
		"ping" => json!({"status": "ok", "pong": true}),
		"alpha_compile" => alpha_ops::compile(request),
		"alpha_front" => alpha_ops::front(request),
		"alpha_lex" => alpha_ops::lex_only(request),
		"delta_front" => delta_ops::front(request),
		"delta_lex" => delta_ops::lex_only(request),
		"lex3" => reflex::lex3(request),
		"lex3_enum" => reflex::lex3_enum(request),
		"fuzz_tokens" => delta_ops::fuzz_tokens(request),
		other => json!({"status": "bad_request", "error": format!("unknown op {other}")}),
	}
}

pub fn bytes_of(v: &Value) -> Vec<u8>
{
	// Sources are passed either as "src" (a JSON string, UTF-8) or as
	// "hex" (arbitrary bytes).
	if let Some(s) = v.get("src").and_then(|x| x.as_str())
	{
		return s.as_bytes().to_vec();
	}
	if let Some(h) = v.get("hex").and_then(|x| x.as_str())
	{
		let h = h.as_bytes();
		let mut out = Vec::with_capacity(h.len() / 2);
		let mut i = 0;
		while i + 1 < h.len()
		{
			let hi = (h[i] as char).to_digit(16).unwrap_or(0) as u8;
			let lo = (h[i + 1] as char).to_digit(16).unwrap_or(0) as u8;
			out.push(hi * 16 + lo);
			i += 2;
		}
		return out;
	}
	Vec::new()
}

pub fn hex(bytes: &[u8]) -> String
{
	let mut s = String::with_capacity(bytes.len() * 2);
	for b in bytes
	{
		s.push_str(&format!("{:02x}", b));
	}
	s
}
