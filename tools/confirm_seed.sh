#!/bin/sh
# Confirms a seeded change inside its scratch worktree: builds both ways, pinned tests still pass, the
# demonstration fails with the change and passes without it.   usage: confirm_seed.sh <worktree> <k>
WT="$1"; K="$2"
cd "$WT" || exit 2
git checkout -q -- . || exit 2
git apply "_seed/change$K.diff" || { echo "RESULT apply=FAILED"; exit 1; }
B1=ok; B2=ok
cargo build --offline >/dev/null 2>&1 || B1=FAILED
PATH=/tmp/llvm-shim:$PATH cargo build --offline --features alpha,llvm-sys >/dev/null 2>&1 || B2=FAILED
TMP=$(mktemp)
cargo test --workspace --no-fail-fast --offline > "$TMP" 2>&1
T=$(python3 - "$TMP" <<'PY'
import json, re, sys
out = open(sys.argv[1], errors="replace").read()
ok = set(); cur = None
for line in out.splitlines():
    m = re.match(r"\s*Running (?:unittests )?(\S+)", line)
    if m:
        cur = m.group(1).split("/")[-1].rsplit(".", 1)[0]
    m = re.match(r"test (\S+) \.\.\. ok", line)
    if m and cur:
        ok.add("penne::%s::%s" % (cur, m.group(1)))
base = json.load(open("/root/.vp/BASELINE.json"))["stable_pass"]
missing = [t for t in base if t not in ok]
print("%d/%d%s" % (len(base) - len(missing), len(base), (" MISSING " + ",".join(missing[:5])) if missing else ""))
PY
)
rm -f "$TMP"
# `cargo test` rebuilt target/debug/penne without the first-generation compiler: build it again for the demonstration
PATH=/tmp/llvm-shim:$PATH cargo build --offline --features alpha,llvm-sys >/dev/null 2>&1
( cd "_seed/demo$K" && PENNE_LLI=lli-14 PATH=/tmp/llvm-shim:$PATH ./run.sh >/tmp/demo_with_$$.log 2>&1 ); WITH=$?
git checkout -q -- .
cargo build --offline >/dev/null 2>&1
PATH=/tmp/llvm-shim:$PATH cargo build --offline --features alpha,llvm-sys >/dev/null 2>&1
( cd "_seed/demo$K" && PENNE_LLI=lli-14 PATH=/tmp/llvm-shim:$PATH ./run.sh >/tmp/demo_without_$$.log 2>&1 ); WITHOUT=$?
echo "RESULT build_default=$B1 build_alpha=$B2 tests=$T demo_with_change_exit=$WITH demo_without_change_exit=$WITHOUT"
tail -3 /tmp/demo_with_$$.log | sed 's/^/  with: /'
rm -f /tmp/demo_with_$$.log /tmp/demo_without_$$.log
