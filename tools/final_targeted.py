#!/usr/bin/env python3
"""The prescribed run for every kept seeded change, targeted: git -C /repo apply <patch>; ./check for the property the change was
written against and for every check that reported it in the development trial; git -C /repo checkout -- . (tools/try_seed.py does
the three steps and refuses to start on a dirty /repo). Results: seeded/<id>/final.json, final.txt.
usage: final_targeted.py [--all-checks] [id ...]"""
import json
import os
import subprocess
import sys

ROOT = "/verif"
args = [a for a in sys.argv[1:] if not a.startswith("--")]
all_checks = "--all-checks" in sys.argv
ids = args or sorted(os.listdir(os.path.join(ROOT, "seeded")))
for sid in ids:
    d = os.path.join(ROOT, "seeded", sid)
    patch = os.path.join(d, "patch.diff")
    if not os.path.isfile(patch):
        continue
    own = sid.split("-")[1] if sid[0] in "RM" else sid.split("-")[0]
    props = {own}
    trial = os.path.join(d, "try_quick.json")
    if os.path.isfile(trial):
        try:
            for k, v in json.load(open(trial)).items():
                if v.get("exit") == 1:
                    props.add(k)
        except ValueError:
            pass
    old = os.path.join(d, "final.json")
    if os.path.isfile(old):
        try:
            for k, v in json.load(open(old)).items():
                if v.get("exit") == 1:
                    props.add(k)
        except ValueError:
            pass
    cmd = ["python3", os.path.join(ROOT, "tools", "try_seed.py"), patch]
    if not all_checks:
        cmd += sorted(props)
    env = dict(os.environ, TRY_OUT=os.path.join(d, "final.json"))
    r = subprocess.run(cmd, env=env, capture_output=True, text=True)
    open(os.path.join(d, "final.txt"), "w").write(r.stdout + r.stderr)
    last = (r.stdout.strip().splitlines() or ["?"])[-1]
    print(sid, last, flush=True)
    st = subprocess.run(["git", "-C", "/repo", "status", "--porcelain"], capture_output=True, text=True).stdout.strip()
    if st:
        print("/repo not clean after", sid)
        sys.exit(2)
