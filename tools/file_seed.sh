#!/bin/sh
# usage: file_seed.sh <Cxx> <k> : confirm the sub-agent's change k for property Cxx in its worktree and file it under /verif/seeded
# (like process_seed.sh without the development trial of all checks)
P="$1"; K="$2"; WT=${WTBASE:-/tmp/wt}-$P
N=$((K+${KOFF:-0}))
D=/verif/seeded/$P-$N
[ -f "$WT/_seed/change$K.diff" ] || { echo "no change$K.diff in $WT/_seed"; exit 1; }
RES=$(/verif/tools/confirm_seed.sh "$WT" "$K")
mkdir -p "$D"
cp "$WT/_seed/change$K.diff" "$D/patch.diff"
rm -rf "$D/demo"; cp -r "$WT/_seed/demo$K" "$D/demo"
[ -d "$WT/_seed/common" ] && { rm -rf "$D/common"; cp -r "$WT/_seed/common" "$D/common"; }
cp "$WT/_seed/meta$K.json" "$D/agent_meta.json" 2>/dev/null
echo "$RES" > "$D/confirmation.txt"
echo "$P-$N $(echo "$RES" | grep RESULT)"
