#!/bin/sh
# Runs the repository's pinned test suite with the verification guard OFF and checks
# that every test listed as stable in /root/.vp/BASELINE.json still passes.
cd /repo || exit 2
unset RUSTFLAGS
TMP=$(mktemp)
cargo test --workspace --no-fail-fast --offline > "$TMP" 2>&1
python3 - "$TMP" <<'PY'
import json, re, sys
out = open(sys.argv[1], errors="replace").read()
ok = set()
cur = None
for line in out.splitlines():
    m = re.match(r"\s*Running (?:unittests )?(\S+)", line)
    if m:
        p = m.group(1)
        cur = p.split("/")[-1].rsplit(".", 1)[0]
    m = re.match(r"test (\S+) \.\.\. ok", line)
    if m and cur:
        ok.add("penne::%s::%s" % (cur, m.group(1)))
base = json.load(open("/root/.vp/BASELINE.json"))["stable_pass"]
missing = [t for t in base if t not in ok]
print("baseline: %d of %d stable tests pass with the guard off" % (len(base) - len(missing), len(base)))
if missing:
    print("MISSING:", missing)
    sys.exit(1)
PY
RC=$?
rm -f "$TMP"
exit $RC
