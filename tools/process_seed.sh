#!/bin/sh
# usage: process_seed.sh <Cxx> <k>   confirm the sub-agent's change k for property Cxx, file it under /verif/seeded, try all checks
P="$1"; K="$2"; WT=${WTBASE:-/tmp/wt}-$P
# KOFF: offset added to the change number for the directory name (second round of changes: KOFF=2)
N=$((K+${KOFF:-0}))
D=/verif/seeded/$P-$N
[ -f "$WT/_seed/change$K.diff" ] || { echo "no change$K.diff in $WT/_seed"; exit 1; }
echo "### $P-$N confirm"
RES=$(/verif/tools/confirm_seed.sh "$WT" "$K")
echo "$RES"
mkdir -p "$D"
cp "$WT/_seed/change$K.diff" "$D/patch.diff"
rm -rf "$D/demo"; cp -r "$WT/_seed/demo$K" "$D/demo"
[ -d "$WT/_seed/common" ] && { rm -rf "$D/common"; cp -r "$WT/_seed/common" "$D/common"; }
cp "$WT/_seed/meta$K.json" "$D/agent_meta.json" 2>/dev/null
echo "$RES" > "$D/confirmation.txt"
echo "### $P-$N try all quick checks"
TRY_REPO=/tmp/repo-try$LANE TRY_VERIF=/tmp/verif-snap$LANE TRY_OUT="$D/try_quick.json" python3 /tmp/verif-snap$LANE/tools/try_seed.py "$D/patch.diff" > "$D/try_quick.txt" 2>&1
tail -1 "$D/try_quick.txt"
