#!/usr/bin/env python3
"""Applies a seeded change to /repo, runs the given checks against it, and undoes it straight afterwards.
usage: try_seed.py <patch.diff> [--tier quick|thorough] [Cxx ...]   (default: all 20 properties, quick)"""
import json
import subprocess
import sys
import time

import os
REPO = os.environ.get("TRY_REPO", "/repo")
VERIF = os.environ.get("TRY_VERIF", "/verif")
args = sys.argv[1:]
patch = args[0]
tier = "quick"
props = []
i = 1
while i < len(args):
    if args[i] == "--tier":
        tier = args[i + 1]
        i += 2
    else:
        props.append(args[i])
        i += 1
if not props:
    props = ["C%02d" % k for k in range(1, 21)]
st = subprocess.run(["git", "-C", REPO, "status", "--porcelain"], capture_output=True, text=True).stdout.strip()
if st:
    print("refusing: %s is not clean:\n" % REPO + st)
    sys.exit(2)
r = subprocess.run(["git", "-C", REPO, "apply", patch])
if r.returncode != 0:
    print("patch does not apply")
    sys.exit(2)
results = {}
try:
    for p in props:
        t0 = time.time()
        env = dict(os.environ)
        if REPO != "/repo":
            env["PV_REPO"] = REPO
        r = subprocess.run([VERIF + "/check", p, "--tier", tier], capture_output=True, text=True, cwd=VERIF, env=env)
        sigs = [l.strip() for l in r.stdout.splitlines() if l.strip().startswith("signature:")]
        results[p] = {"exit": r.returncode, "signatures": sigs[:6], "wall_s": round(time.time() - t0, 1),
                      "harness": [l for l in r.stdout.splitlines() if "HARNESS" in l][:2]}
        print(p, "exit", r.returncode, "%.0fs" % (time.time() - t0), "; ".join(s[11:120] for s in sigs[:3]), flush=True)
finally:
    subprocess.run(["git", "-C", REPO, "checkout", "--", "."])
print("SUMMARY " + json.dumps({p: v["exit"] for p, v in results.items()}))
json.dump(results, open(os.environ.get("TRY_OUT", "/tmp/try_seed_last.json"), "w"), indent=1)
