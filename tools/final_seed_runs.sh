#!/bin/bash
# The prescribed run for every kept seeded change: git -C /repo apply <patch>; every quick check; git -C /repo checkout -- .
# (tools/try_seed.py does the three steps and refuses to start on a dirty /repo). Results: seeded/<id>/final.json, final.txt.
# usage: final_seed_runs.sh [id ...]   (default: every directory under /verif/seeded)
cd /verif || exit 2
ids=("$@")
[ ${#ids[@]} -eq 0 ] && ids=($(ls seeded))
for id in "${ids[@]}"; do
	[ -f "seeded/$id/patch.diff" ] || continue
	echo "### $id"
	TRY_OUT="/verif/seeded/$id/final.json" python3 tools/try_seed.py "/verif/seeded/$id/patch.diff" > "seeded/$id/final.txt" 2>&1
	tail -1 "seeded/$id/final.txt"
	git -C /repo status --porcelain | grep -q . && { echo "/repo not clean after $id"; exit 2; }
done
