#!/usr/bin/env python3
"""Maintenance tool (never run by a check): after triage, append the violations found in /verif/replays/<prop>/ to
known_findings.json as 'known' entries. Usage: register_findings.py C02 [signature-prefix ...]"""
import glob
import json
import sys

prop = sys.argv[1]
prefixes = sys.argv[2:]
path = "/verif/known_findings.json"
known = json.load(open(path))
have = set((f["property"], f["signature"]) for f in known["findings"])
LABEL = {"panic": "compiler panics", "llvm_abort": "process aborts inside LLVM", "signal": "compiler killed by a signal",
         "stack_overflow": "stack overflow", "exit": "LLVM's linker prints an error and exits the process",
         "failure without diagnostic": "compilation fails without any diagnostic"}
n = 0
for f in sorted(glob.glob("/verif/replays/%s/*.json" % prop)):
    d = json.load(open(f))
    sig = d["signature"]
    if (prop, sig) in have:
        continue
    if prefixes and not any(sig.startswith(p) for p in prefixes):
        continue
    rp = d["replay"]
    if "files" in rp:
        src = " | ".join("%s: %s" % (p, " ".join(s.split())[:200]) for p, s in rp["files"][:2])
    else:
        src = " ".join(str(rp.get("source", rp.get("text", "")))[:240].split())
    what = sig.split(":")[0]
    known["findings"].append({"property": prop, "status": "known", "signature": sig,
                              "summary": "%s on input: %s" % (LABEL.get(what, what), src)})
    have.add((prop, sig))
    n += 1
json.dump(known, open(path, "w"), indent=1)
print(n, "entries added for", prop)
