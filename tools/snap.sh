#!/bin/sh
# LANE (optional suffix) selects an independent snapshot/worktree pair so that two trial lanes can run side by side
# Development aid: refresh /tmp/verif-snap$LANE (a copy of the committed /verif pointing at /tmp/repo-try$LANE, a scratch worktree of /repo)
# so that seeded changes can be tried while /verif and /repo are being worked on. Final "which check catches which change"
# results are produced the prescribed way (git -C /repo apply ... checkout).
[ -d /tmp/repo-try$LANE ] || git -C /repo worktree add -q /tmp/repo-try$LANE HEAD
git -C /tmp/repo-try$LANE checkout -q --detach "$(git -C /repo rev-parse HEAD)"
mkdir -p /tmp/verif-snap$LANE
rsync -a --delete --exclude target --exclude replays --exclude .git --exclude evidence --exclude scratch /verif/ /tmp/verif-snap$LANE/
mkdir -p /tmp/verif-snap$LANE/evidence
sed -i "s#path = \"/repo\"#path = \"/tmp/repo-try$LANE\"#" /tmp/verif-snap$LANE/worker/Cargo.toml /tmp/verif-snap$LANE/delta-harness/Cargo.toml
echo "snapshot at $(git -C /verif rev-parse --short HEAD) / repo $(git -C /repo rev-parse --short HEAD)"
