#!/bin/sh
# Development aid: refresh /tmp/verif-snap (a copy of the committed /verif pointing at /tmp/repo-try, a scratch worktree of /repo)
# so that seeded changes can be tried while /verif and /repo are being worked on. Final "which check catches which change"
# results are produced the prescribed way (git -C /repo apply ... checkout).
[ -d /tmp/repo-try ] || git -C /repo worktree add -q /tmp/repo-try HEAD
git -C /tmp/repo-try checkout -q --detach "$(git -C /repo rev-parse HEAD)"
mkdir -p /tmp/verif-snap
rsync -a --delete --exclude target --exclude replays --exclude .git --exclude evidence --exclude scratch /verif/ /tmp/verif-snap/
mkdir -p /tmp/verif-snap/evidence
sed -i 's#path = "/repo"#path = "/tmp/repo-try"#' /tmp/verif-snap/worker/Cargo.toml /tmp/verif-snap/delta-harness/Cargo.toml
echo "snapshot at $(git -C /verif rev-parse --short HEAD) / repo $(git -C /repo rev-parse --short HEAD)"
