#!/usr/bin/env python3
"""Writes /verif/MANIFEST.json from the table below (kept in one place so it stays valid)."""
import json
import os

VERIF = os.path.dirname(os.path.dirname(os.path.abspath(__file__)))

CHECKS = {
    "C01": dict(
        category="translation_validation",
        technique="runtime monitor: differential execution of generated programs (real compiler + lli) against an independent reference interpreter, with layout metamorphosis",
        text="Every generated well-typed, UB-free program (all integer widths, control flow, pointers, views, structs, words, constants) is compiled by the real compiler in several layouts, executed through lli and compared byte for byte with a reference interpreter written from the docs; evidence lists programs, variants and the type x operator x construct cells observed.",
        note="Trusted: reference interpreter pv/interp.py (docs-derived), lli-14. Decides the property only for the generated class; shapes the unchanged tree mishandles are kept as fixed probes (known findings).",
        design="5 C01"),
    "C02": dict(
        category="exploration",
        technique="runtime monitor: exit-state classifier over isolated worker processes driven with mutated corpus, token soup, exhaustive short token sequences, nesting/size stress, module sets",
        text="The real pipeline (lex..link, exactly as main.rs) is run on hostile inputs in isolated workers with debug assertions and overflow checks on; a monitor classifies every exit state (ok / diagnostics / panic / LLVM abort / signal / stack overflow / silent failure / hang).",
        note="Inputs <= 64 KiB, nesting <= 256; hang = bounded form (30 s, retried alone 120 s); 8 MiB stack; known crash sites are listed by exact signature in known_findings.json.",
        design="5 C02"),
}


def main():
    checks = []
    for pid in sorted(CHECKS):
        c = CHECKS[pid]
        checks.append({
            "property_id": pid,
            "quick_cmd": "./check %s --tier quick" % pid,
            "thorough_cmd": "./check %s --tier thorough" % pid,
            "evidence_file": "/verif/evidence/%s.json" % pid,
            "replay_cmd_template": "./check %s --replay {path}" % pid,
            "engine": "pv",
            "level_claimed": {"category": c["category"], "text": c["text"], "design_ref": "DESIGN.md section " + c["design"]},
            "level_note": c["note"],
            "technique": c["technique"],
        })
    props = [json.loads(l)["id"] for l in open(os.path.join(VERIF, "properties.jsonl"))]
    na = [{"property_id": p, "reason": "check not built yet in this round (planned: see DESIGN.md section 5)"}
          for p in props if p not in CHECKS]
    manifest = {
        "version": 1,
        "setup_cmd": "./setup.sh",
        "hooks": {
            "guard": "--cfg penne_verif (RUSTFLAGS)",
            "enable": "RUSTFLAGS='--cfg penne_verif --check-cfg cfg(penne_verif)' set by pv/common.py for every build of /repo; worker crate /verif/worker path-depends on /repo with features alpha,llvm-sys and an llvm-config shim (tools/llvm-shim) first on PATH",
            "baseline_off_cmd": "/verif/tools/baseline_off.sh",
            "source_commits": ["a34d354", "a3d998e"],
            "add_only": True,
        },
        "engines": [
            {"name": "pv", "path": "/verif/pv", "serves_properties": sorted(CHECKS),
             "kind_free_text": "Python drivers (generators, reference models, monitors) over the Rust worker /verif/worker that calls penne's public API; sanitizer builds of the same worker"},
        ],
        "checks": checks,
        "notes": "Runtime monitoring family: every check observes executions of the real code. See DESIGN.md.",
        "not_applicable": na,
    }
    with open(os.path.join(VERIF, "MANIFEST.json"), "w") as f:
        json.dump(manifest, f, indent=1)
    print("MANIFEST.json: %d checks, %d not claimed" % (len(checks), len(na)))


if __name__ == "__main__":
    main()
