#!/usr/bin/env python3
"""Writes /verif/MANIFEST.json from the table below (kept in one place so it stays valid)."""
import json
import os

VERIF = os.path.dirname(os.path.dirname(os.path.abspath(__file__)))

CHECKS = {
    "C01": dict(
        category="translation_validation",
        technique="runtime monitor: differential execution of generated programs (real compiler + lli) against an independent reference interpreter, with layout metamorphosis",
        text="Deterministic literal-window programs (values with the top bit of a narrower width set, in decimal, hexadecimal and binary spelling) and every generated well-typed, UB-free program (all integer widths, control flow, pointers, views, structs, words, constants) is compiled by the real compiler in several layouts, executed through lli and compared byte for byte with a reference interpreter written from the docs; evidence lists programs, variants and the type x operator x construct cells observed.",
        note="Trusted: reference interpreter pv/interp.py (docs-derived), lli-14. Decides the property only for the generated class; shapes the unchanged tree mishandles are kept as fixed probes (known findings).",
        design="5 C01"),
    "C02": dict(
        category="exploration",
        technique="runtime monitor: exit-state classifier over isolated worker processes driven with mutated corpus (incl. documentation examples), token soup, exhaustive short token sequences and statement sequences, nesting/size stress, module sets, dependency graphs; AddressSanitizer build of the worker in thorough",
        text="The real pipeline (lex..link and the rendering of every diagnostic in four colour/charset configurations, exactly as main.rs) is run on hostile inputs in isolated workers with debug assertions and overflow checks on; a monitor classifies every exit state (ok / diagnostics / panic / LLVM abort / signal / stack overflow / silent failure / hang). Besides random workloads: every function body of <= 4/5 statements over three statement alphabets, every declaration order of dependency cycles of length 1-5(6), an inference-failure family (32 expressions x 14 contexts).",
        note="Inputs <= 64 KiB, nesting <= 256; hang = bounded form (30 s, retried alone 120 s); 8 MiB stack; known crash sites are listed by exact signature in known_findings.json; silent failures, which have no site, are keyed on the workload class of the input.",
        design="5 C02"),
    "C03": dict(
        category="exploration",
        technique="runtime monitor: LLVM's own assembler and verifier as independent judges over the IR text of every accepted compilation, plus a define/linkage reader",
        text="Every accepted compilation (generated programs, corpus, accepted mutants, import closures in every rotation, wasm variants, programs without main) has each module text and the linked text pushed through llvm-as-14 and opt-14 -passes=verify; defines are matched against the resolved declarations; which functions must be externally visible (main, pub) is read off the source text.",
        note="Judges: LLVM 14 tools (the linked LLVM version). Unreferenced private functions may be dropped by the linker (unobservable); a source-defined function left as a bare declaration is a violation. LLVM-message findings are keyed on message and origin of the input.",
        design="5 C03"),
    "C04": dict(
        category="exploration",
        technique="runtime monitor: exhaustive small-scope enumeration of function bodies compared with an independent label-scope model; accepted bodies executed",
        text="All bodies with <= 4 (quick) / <= 6 (thorough) statement nodes over labels, gotos, conditional gotos, assignments and nested blocks, an if/else family whose two braced branches are each a short label/goto sequence, plus random bodies with if/else blocks, are compiled; verdict and the set {E400,E420} must equal the model's, and accepted bodies must take the path their gotos prescribe (exit status encodes the path).",
        note="Model written from docs/features.md and the property text; code sets are compared, multiplicities only recorded.",
        design="5 C04"),
    "C05": dict(
        category="exploration",
        technique="runtime monitor: exhaustive small-scope enumeration compared with a lexical rule table and an independent path-based definite-declaration analysis; accepted bodies executed",
        text="All C04-legal bodies with <= 4 / <= 5 statement nodes over declarations, uses, labels, (conditional) gotos and blocks, with parameters/constants of the same names, each also with scope-opening noise (nested empty blocks, empty ifs, array literals) inserted at random and, for every 16th body, at every position; a multi-goto family (also with gotos inside nested blocks with locals), a two-label family and a skip-then-noise family; plus random bodies: an accepted program must have no CFG path reaching a use without its declaration, E402/E422/E482 must follow the documented rules, and accepted programs must compute what the reference interpreter computes.",
        note="After the first diagnostic on an identifier the compiler poisons it, so only the textually first violation per name is required; for gotos no path reaches, E482 is optional.",
        design="5 C05"),
    "C06": dict(
        category="exploration",
        technique="runtime monitor: exhaustive small-scope enumeration of statement trees compared with a placement model (codes and L1800 count); accepted bodies executed",
        text="All statement lists with <= 4 / <= 6 nodes over blocks, if/else/else-if with every branch form (goto, braced, naked statement, naked loop, naked if), loop, goto, assignment, label are compiled; the code set {E800,E801,E840} and the number of L1800 lints must equal the model's; every 4th body also with its assignments replaced by a call statement, a builtin call or a declaration, and with an undefined variable in the first condition (E402 must then come with, not instead of, the placement codes).",
        note="What a naked (E840) branch contains is not judged separately (the statement is poisoned as a whole).",
        design="5 C06"),
    "C07": dict(
        category="exploration",
        technique="runtime monitor: type-rule assertions over the resolved tree of every accepted input (hooked in the worker) plus a verdict table of single type-breaking edits",
        text="(1) generated well-typed programs must be accepted; (2) one program per (edit kind x primitive type pair x operator) - operand swap, operator outside its class, assignment/initialisation/argument/return mismatch (also with an element, a nested element, a member or a pointee as the target; arrays to views / slice pointers of another element type; mismatching calls nested inside coerced arguments; inner array lengths), argument count, missing/excess &, illegal cast - must be rejected with its documented E5xx code; (3) a monitor walks the resolved tree of every accepted input (generated, corpus, import closures, accepted mutants) and asserts identical operand/assignment/argument/return types, operator classes, legal cast pairs and that only array/struct view coercions are implicit.",
        note="The monitor compares types structurally and is independent of the typer. Recorded-not-judged: arithmetic on char8, ! on bool, char8/u8 aliasing of string arrays.",
        design="5 C07"),
    "C08": dict(
        category="exploration",
        technique="runtime monitor: non-interference checker over bracketed call traces of executed generated programs, plus a verdict table",
        text="A table of programs writes through every parameter kind, to constants, copies whole arrays/views/structs (also after a call earlier in the statement), takes addresses of immutable things, passes pointer arguments with and without & (also to pointers to endless arrays): verdicts must match E530-E533/E512/E513; the rejecting rows are repeated inside a block, a then-block, an else-block, an else-if arm, the else after an else-if and a nested else-if, and with the address wrapped in a bit cast. Generated programs bracket every call with prints of all caller locals; after execution a checker that does not use the reference interpreter asserts that a variable changed across a call only if the caller wrote & on it (or on a pointer that may point to it).",
        note="Points-to sets of the generated caller are flow-insensitive (sound over-approximation of the legitimate channel).",
        design="5 C08"),
    "C09": dict(
        category="exploration",
        technique="runtime monitor: literal matrix compiled and executed, printed values and L1142 lint lines compared with the mathematical value of each spelling",
        text="Every integer type x boundary and random values x spellings (decimal, 0x, 0b, underscores, leading zeros, case) x typing mode x negation x nine syntactic contexts (declaration, assignment, scalar argument, element of an array literal / member of a structure literal passed directly or declared, return value), 40 literals per program attributed by line: in-range literals must print exactly their value without L1142, out-of-range ones must raise L1142 on their line; all 256 byte values through every char-literal form; random strings (\\xHH, escapes, \\u{..} boundaries, adjacent-literal concatenation) observed byte by byte; malformed forms must be rejected with E140/E141/E160-E163.",
        note="`-0x80i8` is treated as the operator `-` on the literal `0x80i8` (sign folding is documented for decimal literals only). Out-of-range literals: only the lint is asserted.",
        design="5 C09"),
    "C10": dict(
        category="exploration",
        technique="runtime monitor: metamorphic const-vs-var evaluation, array-length observation through every passing mode, and measured member-address strides",
        text="Random constant expressions (all integer types, arithmetic, bitwise, shifts, casts, forward/backward references, size-of) are printed as `const` and as local `var` and compared with each other and with the reference interpreter; arrays `[N]T` for N = 0..8 from several constant expressions are observed through |a|, view, slice pointer, second-level calls and `&[N]T`, with |:[N]T| = N*|:T|; |:T| (inside functions and as module constants declared anywhere among the structures) is compared with the measured stride between consecutive members of type T; oversized words must raise E380; size-of relations (|:[N]T| = N*|:T|, pointer = usize, structure >= members) are read off the folded IR for the native and the --wasm target; a quarter of the constant programs are compiled as the second module after an unrelated module with constants of its own.",
        note="Ground truth for layout is measured (addresses printed by the running program), not modelled. Undersized words are recorded, not judged (the property only names words larger than declared).",
        design="5 C10"),
    "C11": dict(
        category="exploration",
        technique="runtime monitor: metamorphic permutation of top-level declarations, random dependency graphs with predicted values, and verdict tables for duplicates and type x position rules",
        text="Generated programs (valid and with one injected semantic fault) are compiled in 7 declaration orders (a fifth of them after an unrelated module) and must give the same verdict and, if accepted, the same output; random dependency graphs over constants and structures must be accepted with the predicted values when acyclic and rejected with E413/E415/E416 when a cycle (length 1-5) is closed; single cycles of length 1-5(6) of structures, constants and mixed in every declaration order; constant arrays whose length is a named constant (literal, derived, size-of; also behind pointers; with a same-named constant/structure pair) in every order; duplicate functions/constants/structures/parameters/members in every order and distance must raise E421/E423-E426; a table of types in declaration positions checks E350-E359, E380, E433, and every value type of nesting depth <= 3 over 7 wrappers x 3 bases is placed in 7 declaration positions and judged against the compositional well-formedness rule.",
        note="Lexical/syntactic faults are excluded from the permutation monitor (they blur declaration boundaries). For ill-formed types any code of the E350-E359 family counts, as the property groups them. Differing code sets of two rejections are recorded, not judged (the property asks for 'accepted or rejected alike').",
        design="5 C11"),
    "C12": dict(
        category="exploration",
        technique="runtime monitor: metamorphic module partition x file order against the reference interpreter, visibility probes, history monitor over one Compiler, valgrind memcheck over multi-module compilations",
        text="Generated programs are cut into 2-4 modules with the induced pub/import declarations (import lines at the top or scattered among the declarations) and compiled through the multi-module path in all (or 6 random) file orders: each must be accepted and print what the reference interpreter prints; probes reference public, private and transitively imported functions/constants/structures from outside in every file order (E401/E402/E405 expected for the invisible ones; body-less public heads and a diamond import included); valgrind memcheck watches whole multi-module compilations; two modules with a private extern function of the same name are linked in every order; a generated module is compiled among 1-3 unrelated modules sharing builtins, private names and string literals and must behave as when compiled alone, with valid linked IR.",
        note="The splitter adds the imports that interfaces of imported public items need (imports are not re-exported).",
        design="5 C12"),
    "C13": dict(
        category="exploration",
        technique="runtime monitor: catalogue / location / rendering assertions on every diagnostic (primary location exposed by hook H1) and a determinism monitor comparing three worker processes",
        text="Failing and accepted inputs (corpus and documentation examples plain / CRLF / multi-byte prefix, faults at the end of a file without final newline, diagnostics on multi-line subjects, dependency graphs, injected lexical faults with a known lexeme, mutants, generated programs, import closures with faults in imported modules, a six-import module in random file orders, token soup) are compiled in three separate worker processes: every code must have a heading in docs/errors.md, every primary location must lie inside the named input and start on the reported line, injected lexemes must be covered by a diagnostic of their documented code, every diagnostic must render in 4 colour/charset configurations, every location stored in the parsed tree must be a forward span inside the source (worker option spanmon), and verdict, ordered diagnostics, rendered text and IR text must be identical across the processes.",
        note="'Covers the offending text' is decidable only for injected lexical faults (injected into files that compile cleanly so nothing can mask them).",
        design="5 C13"),
    "C14": dict(
        category="exploration",
        technique="runtime monitor: differential comparison of the two real lexers' normal forms over exhaustively enumerated short strings, plus a by-construction oracle for generated token sequences and injected illegal lexemes",
        text="All strings of length <= 3 (quick) / <= 4 (thorough) over a 45-character alphabet and longer ones over literal and quote/escape sub-alphabets are enumerated inside the worker and lexed by both lexers (kinds, payloads, suffix types, byte spans, lines, error codes and positions compared); token sequences built by a generator that knows every token's kind, value, span and line (random spellings, whitespace, comments, CRLF) must be reproduced exactly by both; leading zeros at and beyond the digit limits, 1-6 digit unicode escapes and boundary values are part of the constructed sequences; illegal lexemes (incl. control characters inside literals, 7-8 digit escapes) embedded in valid text must be reported with their documented code at their position; corpus, mutants and token soup go through the differential comparison.",
        note="Instead of a third reference lexer the oracle for valid input is construction (the generator owns the token list) and for arbitrary input the agreement of the two implementations. `return` (identifier vs keyword) is the sanctioned difference; inputs containing `return!` are skipped.",
        design="5 C14"),
    "C19": dict(
        category="exploration",
        technique="runtime monitor: both lexers as oracles over texts emitted by the real fuzzer (library call and CLI), seeded through hook H2",
        text="Hundreds (quick) to thousands (thorough) of texts of 1-64 KB from fill_to_capacity_with_tokens with the CLI's arguments, and from the real `penne fuzz tokens --kb N --out-dir D`, must be valid UTF-8 of at least N KiB and lex without a single error in both lexers; the evidence lists the token-kind histogram and the (previous family, next family, glued) adjacency pairs observed.",
        note="Reach is over the fuzzer's internal random choices; seeds are recorded so a failing text can be regenerated, and the text itself is saved in the replay file.",
        design="5 C19"),
    "C15": dict(
        category="exploration",
        technique="runtime monitor + sanitizers: exit-state classifier over isolated workers, Miri (UB interpreter) and AddressSanitizer on the second-generation front end",
        text="The sequence of compile_to_ir_using_delta (lex, errors, parse, errors, XML, header, XML) runs on random bytes, mutated corpus with invalid UTF-8/NUL, token soup, exhaustive short token sequences in three contexts, nesting up to 256, density and size stress up to 256 KiB in isolated workers (debug assertions + overflow checks; release for the large ones); every exit state is classified; well-formed shapes (incl. 12000-element lists and operator chains, literal-dense modules under 64 KiB) must be accepted, injected invalid lexemes rejected, E102/E103 only when a limit is truly exceeded, E390 exactly beyond 127 address markers / access steps on both sides of every wrap-around of a narrow counter. The same operations are interpreted by Miri on reduced-size inputs reaching every shape (uninitialised reads, out-of-bounds, invalid set_len) and executed under AddressSanitizer on thousands of inputs.",
        note="Miri: default checks, isolation disabled only to read the input files. Undefined behaviour reported by Miri is a violation even when it shows in the warm-up run. One known stack overflow (25000 nested parentheses) is listed as a finding; the list/operator-chain ones were repaired in /repo (038cefc). 'Terminates' in bounded form.",
        design="5 C15 / 6"),
    "C16": dict(
        category="exploration",
        technique="runtime monitor: three-way tree comparison (generator's own syntax tree, second-generation XML dump decoded by an independent reader, first-generation AST) plus an XML well-formedness checker",
        text="Generated syntactic modules (opaque structures, pub imports, digit separators, address markers inside length-of included) covering every declaration kind, type form, statement, expression form, precedence level and both list styles in random layouts, all valid corpus files and special modules at the limits of the grammar (address depth 1/2/126/127 in four positions, trailing commas everywhere, empty lists): the second-generation parser must accept them, its XML must be balanced with no MALFORMED node, and the decoded tree must equal the generator's tree and the first-generation parser's tree (names, flags, types, statement order, operand order, nesting, literal values).",
        note="Normal form bridges representation only (folded negative literals, concatenated strings decoded by a reference decoder, return label vs keyword, type wrappers). Strings do not start/end with a double quote because the XML dump trims all quotes.",
        design="5 C16"),
    "C17": dict(
        category="exploration",
        technique="runtime monitor: header XML compared with the expected interface computed from the generator's tree and with the parse of the restricted module; exhaustive public/private patterns",
        text="For every sequence of up to 3 (quick) / 4 (thorough) declarations over {const, fn, fn head, struct (also opaque), word, import (also pub import)} x every public/private mask, plus random larger modules with imports and big bodies, the header extracted by the second-generation front end must equal the public declarations in order with pub cleared and bodies removed, must equal the tree of the module printed with only its public declarations, and must not mention private names or body statements; a node-kind monitor over the header's whole node array (worker option header_kinds) asserts that no node of a kind that only occurs in function bodies or marks private zones rides along unseen by the XML dump.",
        note="The header builder is additionally run under Miri through C15's inputs (it writes through MaybeUninit and calls set_len).",
        design="5 C17"),
    "C20": dict(
        category="exploration",
        technique="runtime monitor: rebuild round trip (parse, rebuild, re-parse, compare trees, rebuild again, compare bytes) over generated modules and the corpus",
        text="Generated syntactic modules without builtin calls and all corpus files and documentation examples that parse: the rebuilt text must lex and parse without error, its tree must equal the original up to locations and literal spelling/suffix, and a second rebuild must be byte-identical.",
        note="Two annotation forms of the rebuilder (`Name#?`, `struct#Name`) are a listed finding and are stripped by a keyed, string-aware normalisation so that everything else is still compared.",
        design="5 C20"),
    "C18": dict(
        category="exploration",
        technique="runtime monitor: the real penne binary driven with recording backends; a contract model predicts exit status, written files, shown output and backend choice",
        text="Valid/invalid single- and multi-file inputs x {build, implicit build, run, emit} x option subsets (silent, verbose, color, arrows, wasm, out-dir, backend flag / environment / config / the other subcommand's variable, backend args, failing backend, backend killed by a signal): exit 0 iff compilation and the backend succeeded; --out-dir leaves a .pn.ll per module equal to the library's module IR and accepted by llvm-as; the backend actually invoked follows flag > env > config > default (observed through recording scripts that also capture argv and the piped IR); diagnostics carry their [Exxx], no ESC under --color=never, ASCII arrows under --arrows=ascii, nothing under --silent; `run` through the real lli passes program output through and shows `Output: N`.",
        note="`clang` and `lli` on PATH are recording scripts so the default backend is observable. The triple of --wasm modules is outside the model.",
        design="5 C18"),
}


# what the sixth round of seeded changes added to each check (appended to the level text)
ADDENDA = {
    "C01": "Every third program is also spread over 2-4 modules and compiled in three file orders.",
    "C02": "Also: every declaration form of a function named like the C symbols the builtins are lowered to (abort, snprintf, write ...) next to every builtin use.",
    "C03": "Also: functions named like the builtins' C symbols must be defined under their own name, alone and imported.",
    "C04": "Also a metamorphic family on the `return` label: 110 bodies once with `return: x` and once with the value missing must give the same label diagnostics (plus E335).",
    "C05": "Also across modules: chains of 3-4 modules and a diamond x 5 uses of a constant of a file that is not imported, in every file order.",
    "C06": "Also through the real binary: programs of 1-3 files with the linted branch in every subset of files, every file order, emit and run - `[L1800]` must be shown once per linted branch.",
    "C07": "Also negated literals with an unsigned suffix at nine magnitudes (2^127 among them) in three spellings for every unsigned type (E550).",
    "C08": "Also a writing call on the address of a view member / constant / value parameter in 16 expression positions (assignment-target indices among them), each with an accepted twin on a variable.",
    "C09": "Also hexadecimal and binary literals in char8 contexts (14 values x 4 spellings x 5 contexts).",
    "C10": "Size-of relations also for arrays of 2^20+1 .. 2^32-1 elements (native) and up to 2^27+2 (wasm).",
    "C11": "Also modules of 13-117 dependent declarations (constant and structure chains with named lengths) in 120 orders each.",
    "C12": "Also ten directory layouts with modules of the same file name below, beside and above the importer, in every file order.",
    "C13": "Also operator chains (3-6 operands, 8 operators, one line and several) with the mistyped operand at every later position: an E551 must overlap the offending operator or operand.",
    "C14": "Illegal lexemes also with two independent defects (too big and bad suffix; leading zero and a further defect).",
    "C15": "Also modules of exactly T tokens for every T around the token limit (65536), complete or cut off at 11 places of their last declaration, in both builds.",
    "C16": "Also balanced expressions of 16-1000 operands and flat chains up to 64 in 14 expression positions; import paths with ./, ../, doubled separators, spaces, non-ASCII.",
    "C18": "Also sources that arrive through named pipes (every valid input x subcommand x 4 option sets).",
    "C20": "Import paths with ./, ././, ../, doubled and trailing separators, spaces and non-ASCII characters are part of the generated modules.",
}
for _pid, _t in ADDENDA.items():
    CHECKS[_pid]["text"] = CHECKS[_pid]["text"].rstrip() + " " + _t



def main():
    checks = []
    for pid in sorted(CHECKS):
        c = CHECKS[pid]
        checks.append({
            "property_id": pid,
            "quick_cmd": "./check %s --tier quick" % pid,
            "thorough_cmd": "./check %s --tier thorough" % pid,
            "evidence_file": "/verif/evidence/%s.json" % pid,
            "replay_cmd_template": "./check %s --replay {path}" % pid,
            "engine": "pv",
            "level_claimed": {"category": c["category"], "text": c["text"], "design_ref": "DESIGN.md section " + c["design"]},
            "level_note": c["note"],
            "technique": c["technique"],
        })
    props = [json.loads(l)["id"] for l in open(os.path.join(VERIF, "properties.jsonl"))]
    na = [{"property_id": p, "reason": "check not built yet (see DESIGN.md section 5)"}
          for p in props if p not in CHECKS]
    manifest = {
        "version": 1,
        "setup_cmd": "./setup.sh",
        "hooks": {
            "guard": "--cfg penne_verif (RUSTFLAGS)",
            "enable": "RUSTFLAGS='--cfg penne_verif --check-cfg cfg(penne_verif)' set by pv/common.py for every build of /repo; worker crate /verif/worker path-depends on /repo with features alpha,llvm-sys and an llvm-config shim (tools/llvm-shim) first on PATH",
            "baseline_off_cmd": "/verif/tools/baseline_off.sh",
            "source_commits": ["a34d354", "a3d998e"],
            "add_only": True,
        },
        "engines": [
            {"name": "pv", "path": "/verif/pv", "serves_properties": sorted(CHECKS),
             "kind_free_text": "Python drivers (generators, reference models, monitors) over the Rust worker /verif/worker that calls penne's public API; sanitizer builds of the same worker"},
        ],
        "checks": checks,
        "notes": "Runtime monitoring family: every check observes executions of the real code. See DESIGN.md.",
        "not_applicable": na,
    }
    with open(os.path.join(VERIF, "MANIFEST.json"), "w") as f:
        json.dump(manifest, f, indent=1)
    print("MANIFEST.json: %d checks, %d not claimed" % (len(checks), len(na)))


if __name__ == "__main__":
    main()
