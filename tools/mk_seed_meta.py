#!/usr/bin/env python3
"""Write /verif/seeded/<id>/meta.json from what was recorded for that seeded change:
agent_meta.json (what the author of the change said), confirmation.txt (my own confirmation in a scratch worktree:
both builds, the 75 pinned tests, the demonstration with and without the change), try_quick.json (development trial of every
quick check on a snapshot) and final.json (the prescribed run: git -C /repo apply, ./check, git -C /repo checkout -- .).
Also prints the table that DESIGN.md 13.6 carries."""
import json
import os
import re
import subprocess
import sys

ROOT = os.path.dirname(os.path.dirname(os.path.abspath(__file__)))
SEEDED = os.path.join(ROOT, "seeded")


def load(path):
    try:
        with open(path) as f:
            return json.load(f)
    except (OSError, ValueError):
        return None


def origin_of(d):
    try:
        return open(os.path.join(d, "ORIGIN.txt")).read().strip()
    except OSError:
        return "written by a sub-agent that saw only the property text and a scratch worktree"


def detected(results):
    return sorted(k for k, v in (results or {}).items() if v.get("exit") == 1)


def harness(results):
    return sorted(k for k, v in (results or {}).items() if v.get("exit") not in (0, 1))


def main():
    rows = []
    for name in sorted(os.listdir(SEEDED)):
        d = os.path.join(SEEDED, name)
        if not os.path.isfile(os.path.join(d, "patch.diff")):
            continue
        final = load(os.path.join(d, "final.json"))
        trial = load(os.path.join(d, "try_quick.json"))
        thorough = load(os.path.join(d, "final_thorough.json"))
        if name.startswith("R-"):
            _r, prop, commit = name.split("-", 2)
            subject = subprocess.run(["git", "-C", "/repo", "log", "-1", "--format=%s", commit], capture_output=True,
                                     text=True).stdout.strip()
            meta = {
                "id": name, "property": prop, "origin": "regression: reverse of fix commit %s" % commit,
                "summary": "re-introduces the defect repaired by: " + subject,
                "needs_to_manifest": "the input class named in the fix commit message (see known_findings.json, fixed entry)",
                "confirmed": "the defect was observed on the pinned tree before the fix; the pinned 75 tests pass both ways "
                             "(tools/baseline_off.sh)",
            }
        else:
            prop = name.split("-")[1] if name.startswith("M-") else name.split("-")[0]
            am = load(os.path.join(d, "agent_meta.json")) or {}
            conf = ""
            try:
                conf = open(os.path.join(d, "confirmation.txt")).read()
            except OSError:
                pass
            m = re.search(r"RESULT (.*)", conf)
            meta = {
                "id": name, "property": prop, "origin": origin_of(d),
                "summary": am.get("summary"), "mechanism": am.get("mechanism"),
                "needs_to_manifest": am.get("needs_to_manifest"), "files_changed": am.get("files_changed"),
                "confirmed": (m.group(1) if m else "not confirmed") +
                             " (tools/confirm_seed.sh in the author's scratch worktree: cargo build with default features and "
                             "with alpha,llvm-sys; cargo test --workspace --no-fail-fast --offline against the 75 pinned tests; "
                             "demo/run.sh with the change and without)",
            }
        meta["what_was_run"] = {
            "final": "git -C /repo apply patch.diff; ./check <id> --tier quick for the listed checks; git -C /repo checkout -- ."
                     if final else None,
            "trial": "every quick check on a snapshot of /verif against a scratch worktree with the patch applied (tools/try_seed.py)"
                     if trial else None,
        }
        res = final or trial or {}
        meta["detected_by_quick"] = detected(final) if final else detected(trial)
        if final and trial:
            meta["detected_by_quick_in_trial_of_all_checks"] = detected(trial)
        if thorough:
            meta["detected_by_thorough"] = detected(thorough)
        meta["harness_failures"] = harness(res)
        sigs = {}
        for k in meta["detected_by_quick"]:
            sigs[k] = [s.replace("signature: ", "") for s in res[k].get("signatures", [])][:4]
        meta["signatures"] = sigs
        meta["own_property_detected"] = prop in meta["detected_by_quick"] or prop in meta.get("detected_by_thorough", [])
        with open(os.path.join(d, "meta.json"), "w") as f:
            json.dump(meta, f, indent=1)
        rows.append(meta)
    print("| change | breaks | needs | quick checks that report it | thorough only |")
    print("|---|---|---|---|---|")
    for m in rows:
        needs = (m.get("needs_to_manifest") or "").split(". ")[0][:110]
        th = sorted(set(m.get("detected_by_thorough", [])) - set(m["detected_by_quick"]))
        print("| %s | %s | %s | %s | %s |" % (m["id"], m["property"], needs.replace("|", "\\|"),
                                            ", ".join(m["detected_by_quick"]) or "none", ", ".join(th) or ""))
    if "--design" in sys.argv:
        # rewrite section 13.6 of DESIGN.md with the table
        import io
        buf = io.StringIO()
        buf.write("### 13.6 Which checks report which seeded change\n\n")
        buf.write("Generated by `tools/mk_seed_meta.py --design` from seeded/<id>/final.json (the prescribed run on /repo, quick tier, seed 1). "
                  "`Cxx-k`: written by a sub-agent against property Cxx (k = 1,2 first round; 3,4 second; 5,6 third; 7,8 fourth; 9 fifth; 10 sixth); `R-Cxx-<commit>`: reverse of "
                  "fix <commit>; `M-`: hand-made. Several changes coincide (different agents picked the same edit): C02-4 = C05-4, "
                  "C10-4 = C11-4 = C12-2 = C12-3, C17-3 = C17-1, C19-3 = C19-1; they are kept because each was written against a different "
                  "property. Every change is reported by the quick check of the property it was written against.\n\n")
        buf.write("| change | what it needs to manifest | quick checks that report it |\n|---|---|---|\n")
        for m in rows:
            needs = " ".join((m.get("needs_to_manifest") or "").split())
            needs = needs.split(". ")[0][:200]
            buf.write("| %s | %s | %s |\n" % (m["id"], needs.replace("|", "\\|"), ", ".join(m["detected_by_quick"]) or "none"))
        path = os.path.join(ROOT, "DESIGN.md")
        text = open(path).read()
        i = text.find("### 13.6 ")
        if i < 0:
            text = text.rstrip("\n") + "\n\n" + buf.getvalue()
        else:
            j = text.find("\n## ", i)
            k2 = text.find("\n### ", i + 5)
            ends = [x for x in (j, k2) if x > 0]
            end = min(ends) if ends else len(text)
            text = text[:i] + buf.getvalue() + text[end:]
        open(path, "w").write(text)
    missed = [m["id"] for m in rows if not m["own_property_detected"]]
    print("\nnot reported by the check of their own property: %s" % (", ".join(missed) or "none"), file=sys.stderr)


if __name__ == "__main__":
    main()
