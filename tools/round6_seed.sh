#!/bin/sh
# usage: round6_seed.sh <Cxx>   confirm the round-6 sub-agent's change for property Cxx in its scratch worktree /tmp/w6-Cxx,
# file it under /verif/seeded/Cxx-10, run the property's own quick check against it the prescribed way (on /repo, undone afterwards)
P="$1"; WT=/tmp/w6-$P; D=/verif/seeded/$P-10
[ -f "$WT/_seed/change1.diff" ] || { echo "no change1.diff in $WT/_seed"; exit 1; }
RES=$(/verif/tools/confirm_seed.sh "$WT" 1)
echo "$P: $RES"
mkdir -p "$D"
cp "$WT/_seed/change1.diff" "$D/patch.diff"
rm -rf "$D/demo"; cp -r "$WT/_seed/demo1" "$D/demo"
cp "$WT/_seed/meta1.json" "$D/agent_meta.json" 2>/dev/null
echo "$RES" > "$D/confirmation.txt"
